// Included at the end of src/client/handle.rs (scratch copy only): L3-op harnesses.  The harness
// plays the context: it polls one user operation, takes the ContextMessage from the queue,
// inspects it, answers through the response channel and polls again.
#[cfg(kani)]
mod verif_in_handle {
    use super::*;
    use crate::client::error::*;
    use crate::core::collections::UserProperties;
    use crate::verif_h::refdec;
    use core::future::Future;
    use core::pin::Pin;
    use core::task::{Context, Poll};

    fn cx() -> Context<'static> {
        let w: &'static core::task::Waker = Box::leak(Box::new(futures::task::noop_waker()));
        Context::from_waker(w)
    }

    fn handle_with(c: u16, s: u32) -> (ContextHandle, mpsc::UnboundedReceiver<ContextMessage>) {
        let (sender, receiver) = mpsc::unbounded();
        (ContextHandle { sender, packet_id: Arc::new(AtomicU16::from(c)), sub_id: Arc::new(AtomicU32::from(s)) }, receiver)
    }

    fn next_msg(r: &mut mpsc::UnboundedReceiver<ContextMessage>) -> Option<ContextMessage> {
        match r.try_next() {
            Ok(Some(m)) => Some(m),
            _ => None,
        }
    }

    fn ack<R: Default>(id: u16, reason: R) -> AckRx<R> {
        AckRx { packet_identifier: NonZero::try_from(id).unwrap(), reason, reason_string: None, user_property: UserProperties::new() }
    }

    fn succ(c: u16) -> u16 {
        // the identifier after c, skipping 0
        if c == u16::MAX {
            1
        } else {
            c + 1
        }
    }

    const NOP: refdec::Exp<'static> = refdec::NO_PROPS;

    //@ h name=op_publish_q1 props=C05,C06,C11,C16 tier=off cap=small to=2400 mem=45
    //@ claim: publish(QoS 1) for any value of the shared identifier counter: never panics; queues exactly one AwaitAck message whose bytes are one well-formed PUBLISH (DUP=0, QoS 1, requested retain/topic/payload) carrying a non-zero packet identifier and whose action id is (PUBACK<<24)|(id<<8); stays Pending (and queues nothing more) when polled again before the answer; completes only after its own response channel is answered; PUBACK reason < 0x80 gives Ok, >= 0x80 gives PubackError carrying that reason; the counter advances to a different non-zero identifier
    //@ bounds: counter any u16 (including 0 and 65535); retain symbolic; topic "t", payload "x"; every legal PUBACK reason code
    //@ funcs: ContextHandle::publish (QoS 1 branch), PublishOpts::packet_identifier, tx_action_id, PubackError::from
    #[kani::proof]
    #[kani::unwind(8)]
    pub(crate) fn op_publish_q1() {
        let c: u16 = kani::any();
        let (mut handle, mut queue) = handle_with(c, 1);
        let counter = handle.packet_id.clone();
        let retain: bool = kani::any();
        let rb: u8 = kani::any();
        let reason = PubackReason::try_from(rb);
        kani::assume(reason.is_ok());
        let reason = reason.unwrap();
        let mut cx = cx();
        {
            let mut fut = core::pin::pin!(handle.publish(PublishOpts::new().topic_name("t").payload(b"x").qos(QoS::AtLeastOnce).retain(retain)));
            assert!(fut.as_mut().poll(&mut cx).is_pending(), "pending until acknowledged");
            let msg = match next_msg(&mut queue) {
                Some(ContextMessage::AwaitAck(m)) => m,
                _ => panic!("exactly one AwaitAck message is queued"),
            };
            assert!(next_msg(&mut queue).is_none(), "nothing else is queued");
            let d = refdec::publish(&msg.packet[..], &NOP);
            assert!(d.is_ok(), "the queued bytes are one well-formed PUBLISH without properties");
            let d = d.unwrap();
            assert!(!d.dup && d.qos == 1 && d.retain == retain, "DUP=0, QoS 1, requested retain");
            assert!(refdec::eq(d.topic, b"t") && refdec::eq(d.payload, b"x"), "topic and payload");
            let id = d.packet_id.unwrap();
            assert!(id != 0, "packet identifier is non-zero");
            assert!(msg.action_id == (4usize << 24) | ((id as usize) << 8), "action id expects the PUBACK with this identifier");
            let after = counter.load(Ordering::Relaxed);
            assert!(after != 0 || succ(id) != 0, "counter state");
            // spurious poll: no effect
            assert!(fut.as_mut().poll(&mut cx).is_pending(), "still pending on a spurious poll");
            assert!(next_msg(&mut queue).is_none(), "a spurious poll queues nothing");
            assert!(msg.response_channel.send(Ok(RxPacket::Puback(ack(id, reason)))).is_ok(), "the operation is still listening");
            match fut.as_mut().poll(&mut cx) {
                Poll::Ready(Ok(())) => assert!(rb < 0x80, "Ok only for reason < 0x80"),
                Poll::Ready(Err(MqttError::PubackError(e))) => {
                    assert!(rb >= 0x80 && e.reason() as u8 == rb, "PubackError carrying the reason, only for reason >= 0x80")
                }
                _ => panic!("completes with Ok or PubackError once answered"),
            }
            kani::cover!(rb >= 0x80, "failing PUBACK");
            kani::cover!(rb == 0x10, "PUBACK 0x10 (no matching subscribers) is success");
            kani::cover!(c == 65535, "last identifier before wrap-around");
        }
        core::mem::forget(handle);
        core::mem::forget(queue);
    }

    //@ h name=op_publish_q2 props=C05,C06,C11,C16 tier=off cap=small to=1800
    //@ claim: publish(QoS 2): one PUBLISH (DUP=0, QoS 2, non-zero id, action id expecting PUBREC); after a PUBREC with reason < 0x80 exactly one PUBREL (62 02 id) with the same identifier and an action id expecting PUBCOMP is queued, and none after a failing PUBREC, which makes publish fail with PubrecError carrying the reason; PUBCOMP reason < 0x80 gives Ok, >= 0x80 PubcompError; spurious polls between the phases queue nothing
    //@ bounds: counter any u16; every legal PUBREC and PUBCOMP reason code
    //@ funcs: ContextHandle::publish (QoS 2 branch), PubrelTxBuilder, tx_action_id, PubrecError::from, PubcompError::from
    #[kani::proof]
    #[kani::unwind(8)]
    pub(crate) fn op_publish_q2() {
        let c: u16 = kani::any();
        let (mut handle, mut queue) = handle_with(c, 1);
        let (r1, r2): (u8, u8) = (kani::any(), kani::any());
        let (rec, comp) = (PubrecReason::try_from(r1), PubcompReason::try_from(r2));
        kani::assume(rec.is_ok() && comp.is_ok());
        let mut cx = cx();
        {
            let mut fut = core::pin::pin!(handle.publish(PublishOpts::new().topic_name("t").qos(QoS::ExactlyOnce)));
            assert!(fut.as_mut().poll(&mut cx).is_pending(), "pending until PUBREC");
            let msg = match next_msg(&mut queue) {
                Some(ContextMessage::AwaitAck(m)) => m,
                _ => panic!("exactly one AwaitAck message is queued"),
            };
            let d = refdec::publish(&msg.packet[..], &NOP);
            assert!(d.is_ok(), "the queued bytes are one well-formed PUBLISH");
            let d = d.unwrap();
            assert!(!d.dup && d.qos == 2, "DUP=0, QoS 2");
            let id = d.packet_id.unwrap();
            assert!(msg.action_id == (5usize << 24) | ((id as usize) << 8), "action id expects the PUBREC with this identifier");
            assert!(next_msg(&mut queue).is_none(), "no PUBREL before the PUBREC");
            assert!(msg.response_channel.send(Ok(RxPacket::Pubrec(ack(id, rec.unwrap())))).is_ok(), "listening for PUBREC");
            let p = fut.as_mut().poll(&mut cx);
            if r1 >= 0x80 {
                match p {
                    Poll::Ready(Err(MqttError::PubrecError(e))) => assert!(e.reason() as u8 == r1, "PubrecError carrying the reason"),
                    _ => panic!("a failing PUBREC fails the publish"),
                }
                assert!(next_msg(&mut queue).is_none(), "no PUBREL after a failing PUBREC");
                kani::cover!(true, "failing PUBREC");
            } else {
                assert!(p.is_pending(), "pending until PUBCOMP");
                let rel = match next_msg(&mut queue) {
                    Some(ContextMessage::AwaitAck(m)) => m,
                    _ => panic!("exactly one PUBREL message is queued after a successful PUBREC"),
                };
                assert!(next_msg(&mut queue).is_none(), "exactly one PUBREL");
                let a = refdec::ack(&rel.packet[..], 6, &NOP);
                assert!(a.is_ok(), "the queued bytes are one well-formed PUBREL");
                assert!(a.unwrap().packet_id == id, "PUBREL carries the PUBLISH's identifier");
                assert!(rel.action_id == (7usize << 24) | ((id as usize) << 8), "action id expects the PUBCOMP with this identifier");
                assert!(fut.as_mut().poll(&mut cx).is_pending(), "spurious poll between the phases");
                assert!(next_msg(&mut queue).is_none(), "a spurious poll queues nothing");
                assert!(rel.response_channel.send(Ok(RxPacket::Pubcomp(ack(id, comp.unwrap())))).is_ok(), "listening for PUBCOMP");
                match fut.as_mut().poll(&mut cx) {
                    Poll::Ready(Ok(())) => assert!(r2 < 0x80, "Ok only for PUBCOMP reason < 0x80"),
                    Poll::Ready(Err(MqttError::PubcompError(e))) => assert!(r2 >= 0x80 && e.reason() as u8 == r2, "PubcompError carrying the reason"),
                    _ => panic!("completes once the PUBCOMP arrived"),
                }
                kani::cover!(r2 >= 0x80, "failing PUBCOMP");
                kani::cover!(r1 == 0x10 && r2 == 0, "successful handshake");
            }
        }
        core::mem::forget(handle);
        core::mem::forget(queue);
    }

    //@ h name=op_publish_q0 props=C06,C12 tier=off cap=small to=2400 mem=45
    //@ claim: publish(QoS 0): one FireAndForget message with one well-formed PUBLISH (QoS 0, no identifier, DUP=0); completes with exactly the result the context sends (Ok once written, MaximumPacketSizeExceeded when refused) and not before
    //@ bounds: retain symbolic; both answers
    //@ funcs: ContextHandle::publish (QoS 0 branch)
    #[kani::proof]
    #[kani::unwind(8)]
    pub(crate) fn op_publish_q0() {
        let (mut handle, mut queue) = handle_with(1, 1);
        let retain: bool = kani::any();
        let refuse: bool = kani::any();
        let mut cx = cx();
        {
            let mut fut = core::pin::pin!(handle.publish(PublishOpts::new().topic_name("t").payload(b"x").retain(retain)));
            assert!(fut.as_mut().poll(&mut cx).is_pending(), "pending until the context answered");
            let msg = match next_msg(&mut queue) {
                Some(ContextMessage::FireAndForget(m)) => m,
                _ => panic!("exactly one FireAndForget message is queued"),
            };
            let d = refdec::publish(&msg.packet[..], &NOP);
            assert!(d.is_ok(), "well-formed PUBLISH");
            let d = d.unwrap();
            assert!(!d.dup && d.qos == 0 && d.retain == retain && d.packet_id.is_none(), "QoS 0, no identifier");
            assert!(fut.as_mut().poll(&mut cx).is_pending() && next_msg(&mut queue).is_none(), "spurious poll has no effect");
            let answer = if refuse { Err(MqttError::from(MaximumPacketSizeExceeded)) } else { Ok(()) };
            assert!(msg.response_channel.send(answer).is_ok(), "listening");
            match fut.as_mut().poll(&mut cx) {
                Poll::Ready(Ok(())) => assert!(!refuse, "Ok once written"),
                Poll::Ready(Err(MqttError::MaximumPacketSizeExceeded(_))) => assert!(refuse, "refusal reported"),
                _ => panic!("completes with the context's answer"),
            }
            kani::cover!(refuse, "refused");
        }
        core::mem::forget(handle);
        core::mem::forget(queue);
    }

    //@ h name=op_subscribe props=C05,C07,C11,C16 tier=off cap=small to=1800
    //@ claim: subscribe(): never panics for any counter values; queues exactly one Subscribe message with one well-formed SUBSCRIBE carrying a non-zero packet identifier and the subscription identifier taken from the shared counter, an action id expecting the SUBACK with that identifier, and the stream's sender; completes only when answered, with the SUBACK's reason codes; messages pushed into the registered stream before or after the SUBACK come out of the SubscribeStream in order
    //@ bounds: packet identifier counter any u16, subscription identifier counter 1..=268435455; one topic filter "a/b" with default options; one SUBACK reason code (any legal); up to two messages in the stream
    //@ funcs: ContextHandle::subscribe, SubscribeOpts::packet_identifier/subscription_identifier, tx_action_id, SubscribeRsp::stream/payload
    #[kani::proof]
    #[kani::unwind(8)]
    pub(crate) fn op_subscribe() {
        let c: u16 = kani::any();
        let s: u32 = kani::any();
        kani::assume(s != 0 && s <= 0x0fff_ffff);
        let (mut handle, mut queue) = handle_with(c, s);
        let rb: u8 = kani::any();
        let code = SubackReason::try_from(rb);
        kani::assume(code.is_ok());
        let mut cx = cx();
        {
            let mut fut = core::pin::pin!(handle.subscribe(SubscribeOpts::new().subscription("a/b", SubscriptionOpts::new())));
            assert!(fut.as_mut().poll(&mut cx).is_pending(), "pending until SUBACK");
            let msg = match next_msg(&mut queue) {
                Some(ContextMessage::Subscribe(m)) => m,
                _ => panic!("exactly one Subscribe message is queued"),
            };
            assert!(next_msg(&mut queue).is_none(), "nothing else is queued");
            let pe = refdec::Exp { ids: &[11], present: &[true], ival: &[s], sval: &[&[]], users: &[], n_users: 0 };
            let d = refdec::subscribe(&msg.packet[..], &pe);
            assert!(d.is_ok(), "one well-formed SUBSCRIBE carrying the subscription identifier from the counter");
            let d = d.unwrap();
            assert!(d.packet_id != 0 && d.n == 1 && refdec::eq(d.filters[0].0, b"a/b") && d.filters[0].1 == 2, "identifier, filter, default options");
            assert!(msg.action_id == (9usize << 24) | ((d.packet_id as usize) << 8), "action id expects the SUBACK with this identifier");
            assert!(msg.subscription_identifier == s as usize, "stream registered under the subscription identifier on the wire");
            // a message arriving before the SUBACK
            let early = msg.stream.unbounded_send(RxPacket::Pingresp(PingrespRx {}));
            assert!(early.is_ok(), "the stream exists before the SUBACK");
            assert!(fut.as_mut().poll(&mut cx).is_pending() && next_msg(&mut queue).is_none(), "spurious poll has no effect");
            let suback = SubackRx { packet_identifier: NonZero::try_from(d.packet_id).unwrap(), reason_string: None, user_property: UserProperties::new(), payload: vec![code.unwrap()] };
            assert!(msg.response_channel.send(Ok(RxPacket::Suback(suback))).is_ok(), "listening");
            match fut.as_mut().poll(&mut cx) {
                Poll::Ready(Ok(rsp)) => {
                    assert!(rsp.payload().len() == 1 && rsp.payload()[0] as u8 == rb, "SUBACK reason code handed to the caller");
                    core::mem::forget(rsp);
                }
                _ => panic!("completes with the SUBACK"),
            }
            kani::cover!(rb >= 0x80, "refused subscription");
            kani::cover!(s == 0x0fff_ffff, "largest subscription identifier");
            core::mem::forget(msg.stream);
        }
        core::mem::forget(handle);
        core::mem::forget(queue);
    }

    //@ h name=op_unsub_ping_disc props=C05,C11,C13,C16 tier=off cap=small to=1800
    //@ claim: unsubscribe(): one AwaitAck message with a well-formed UNSUBSCRIBE (non-zero identifier, action id expecting UNSUBACK) completing with the UNSUBACK's codes; ping(): one AwaitAck message with C0 00 and the PINGRESP action id, completing on PINGRESP; disconnect(): one FireAndForget message with a well-formed DISCONNECT carrying the requested reason, completing with the context's answer; none of them panics or completes before its own channel is answered
    //@ bounds: counter any u16; UNSUBACK code any legal; DISCONNECT reason any legal
    //@ funcs: ContextHandle::unsubscribe, ContextHandle::ping, ContextHandle::disconnect, tx_action_id
    #[kani::proof]
    #[kani::unwind(8)]
    pub(crate) fn op_unsub_ping_disc() {
        let c: u16 = kani::any();
        let (mut handle, mut queue) = handle_with(c, 1);
        let mut cx = cx();
        let which: u8 = kani::any();
        kani::assume(which < 3);
        if which == 0 {
            let rb: u8 = kani::any();
            let code = UnsubackReason::try_from(rb);
            kani::assume(code.is_ok());
            let mut fut = core::pin::pin!(handle.unsubscribe(UnsubscribeOpts::new().topic_filter("a/b")));
            assert!(fut.as_mut().poll(&mut cx).is_pending(), "pending until UNSUBACK");
            let msg = match next_msg(&mut queue) {
                Some(ContextMessage::AwaitAck(m)) => m,
                _ => panic!("exactly one AwaitAck message is queued"),
            };
            let d = refdec::unsubscribe(&msg.packet[..], &NOP);
            assert!(d.is_ok(), "one well-formed UNSUBSCRIBE");
            let d = d.unwrap();
            assert!(d.packet_id != 0 && d.n == 1 && refdec::eq(d.filters[0], b"a/b"), "identifier and filter");
            assert!(msg.action_id == (11usize << 24) | ((d.packet_id as usize) << 8), "action id expects the UNSUBACK");
            assert!(fut.as_mut().poll(&mut cx).is_pending() && next_msg(&mut queue).is_none(), "spurious poll has no effect");
            let unsuback = UnsubackRx { packet_identifier: NonZero::try_from(d.packet_id).unwrap(), reason_string: None, user_property: UserProperties::new(), payload: vec![code.unwrap()] };
            assert!(msg.response_channel.send(Ok(RxPacket::Unsuback(unsuback))).is_ok(), "listening");
            match fut.as_mut().poll(&mut cx) {
                Poll::Ready(Ok(rsp)) => {
                    assert!(rsp.payload().len() == 1 && rsp.payload()[0] as u8 == rb, "UNSUBACK code handed to the caller");
                    core::mem::forget(rsp);
                }
                _ => panic!("completes with the UNSUBACK"),
            }
            kani::cover!(c == 0xffff, "opt: unsubscribe at the last identifier");
        } else if which == 1 {
            let mut fut = core::pin::pin!(handle.ping());
            assert!(fut.as_mut().poll(&mut cx).is_pending(), "pending until PINGRESP");
            let msg = match next_msg(&mut queue) {
                Some(ContextMessage::AwaitAck(m)) => m,
                _ => panic!("exactly one AwaitAck message is queued"),
            };
            assert!(refdec::pingreq(&msg.packet[..]), "PINGREQ is C0 00");
            assert!(msg.action_id == 13usize << 24, "action id expects a PINGRESP");
            assert!(fut.as_mut().poll(&mut cx).is_pending() && next_msg(&mut queue).is_none(), "spurious poll has no effect");
            assert!(msg.response_channel.send(Ok(RxPacket::Pingresp(PingrespRx {}))).is_ok(), "listening");
            assert!(matches!(fut.as_mut().poll(&mut cx), Poll::Ready(Ok(()))), "completes on PINGRESP");
        } else {
            let rb: u8 = kani::any();
            let reason = DisconnectReason::try_from(rb);
            kani::assume(reason.is_ok());
            let mut fut = core::pin::pin!(handle.disconnect(DisconnectOpts::new().reason(reason.unwrap())));
            assert!(fut.as_mut().poll(&mut cx).is_pending(), "pending until written");
            let msg = match next_msg(&mut queue) {
                Some(ContextMessage::FireAndForget(m)) => m,
                _ => panic!("exactly one FireAndForget message is queued"),
            };
            let pe = refdec::Exp { ids: &[17, 31], present: &[false, false], ival: &[0, 0], sval: &[&[], &[]], users: &[], n_users: 0 };
            let d = refdec::disconnect(&msg.packet[..], &pe);
            assert!(d.is_ok() && d.unwrap().0 == rb, "one well-formed DISCONNECT with the requested reason");
            assert!(msg.response_channel.send(Ok(())).is_ok(), "listening");
            assert!(matches!(fut.as_mut().poll(&mut cx), Poll::Ready(Ok(()))), "completes with the context's answer");
        }
        kani::cover!(which == 0, "unsubscribe");
        kani::cover!(which == 1, "ping");
        kani::cover!(which == 2, "disconnect");
        core::mem::forget(handle);
        core::mem::forget(queue);
    }

    //@ h name=op_ctx_gone props=C14 tier=off cap=small to=1800
    //@ claim: once the context side is gone every operation fails with ContextExited and none stays pending: an operation started after the message queue's receiver was dropped fails at its first poll; an operation whose queued message was consumed and whose waiter was then dropped (context dropped while the operation awaits its acknowledgement) completes with ContextExited; a QoS 2 publish whose context disappears between PUBREC and PUBREL fails with ContextExited
    //@ bounds: operations publish QoS 0/1/2, subscribe, unsubscribe, ping, disconnect (symbolic selector); drop points {before the first poll, while awaiting the acknowledgement, between the QoS 2 phases}
    //@ assume: dropping a channel endpoint is observed by the other endpoint (contract of futures-channel, modelled)
    //@ funcs: ContextHandle::{publish, subscribe, unsubscribe, ping, disconnect}, From<TrySendError>/From<Canceled> for MqttError
    #[kani::proof]
    #[kani::unwind(8)]
    pub(crate) fn op_ctx_gone() {
        let (mut handle, queue) = handle_with(7, 7);
        let mut queue = Some(queue);
        let mut cx = cx();
        let op: u8 = kani::any();
        kani::assume(op < 7);
        let early: bool = kani::any();
        if early {
            drop(queue.take());
        }
        macro_rules! run {
            ($fut:expr) => {{
                let mut fut = Box::pin($fut);
                let p = fut.as_mut().poll(&mut cx);
                if early {
                    assert!(matches!(p, Poll::Ready(Err(MqttError::ContextExited(_)))), "started after the context is gone: fails immediately with ContextExited");
                } else {
                    assert!(p.is_pending(), "pending while the context lives");
                }
                fut
            }};
        }
        macro_rules! finish {
            ($fut:expr) => {{
                // the context consumed the message and is then dropped together with its waiters
                if !early {
                    let m = next_msg(queue.as_mut().unwrap());
                    assert!(m.is_some(), "message queued");
                    drop(m);
                    assert!(matches!($fut.as_mut().poll(&mut cx), Poll::Ready(Err(MqttError::ContextExited(_)))), "waiter dropped: completes with ContextExited instead of hanging");
                }
                core::mem::forget($fut);
            }};
        }
        match op {
            0 => {
                let mut f = run!(handle.publish(PublishOpts::new().topic_name("t")));
                finish!(f);
            }
            1 => {
                let mut f = run!(handle.publish(PublishOpts::new().topic_name("t").qos(QoS::AtLeastOnce)));
                finish!(f);
            }
            2 => {
                let mut f = run!(handle.subscribe(SubscribeOpts::new().subscription("a", SubscriptionOpts::new())));
                finish!(f);
            }
            3 => {
                let mut f = run!(handle.unsubscribe(UnsubscribeOpts::new().topic_filter("a")));
                finish!(f);
            }
            4 => {
                let mut f = run!(handle.ping());
                finish!(f);
            }
            5 => {
                let mut f = run!(handle.disconnect(DisconnectOpts::new()));
                finish!(f);
            }
            _ => {
                // QoS 2: context disappears between the phases
                let mut f = run!(handle.publish(PublishOpts::new().topic_name("t").qos(QoS::ExactlyOnce)));
                if !early {
                    let msg = match next_msg(queue.as_mut().unwrap()) {
                        Some(ContextMessage::AwaitAck(m)) => m,
                        _ => panic!("PUBLISH queued"),
                    };
                    assert!(msg.response_channel.send(Ok(RxPacket::Pubrec(ack(7, PubrecReason::Success)))).is_ok(), "listening");
                    drop(queue.take());
                    assert!(matches!(f.as_mut().poll(&mut cx), Poll::Ready(Err(MqttError::ContextExited(_)))), "context gone between PUBREC and PUBREL: ContextExited");
                    core::mem::forget(f);
                    core::mem::forget(handle);
                    kani::cover!(true, "opt: context dropped between the QoS 2 phases");
                    return;
                }
                core::mem::forget(f);
            }
        }
        kani::cover!(early, "operation started after the context is gone");
        kani::cover!(!early && op == 2, "subscribe abandoned by the context");
        core::mem::forget(handle);
        core::mem::forget(queue);
    }

    //@ h name=id_alloc props=C11 tier=quick cap=small to=600
    //@ claim: the packet identifier allocator used by publish (QoS>0), subscribe and unsubscribe never panics and never yields 0 for any state of the shared counter; two consecutive allocations yield different identifiers; the counter always advances, so an identifier can only repeat after all 65535 others were handed out (the successor function c -> c+1 skipping 0 is a single cycle over 1..=65535, checked as a bit-vector fact: the k-th successor of c equals c for 1 <= k <= 65535 only when k = 65535)
    //@ bounds: every counter value (u16); two consecutive allocations from one handle; the cycle-length fact for every start value and every k in 1..=65535 (closed form, no loop)
    //@ funcs: next_packet_id
    #[kani::proof]
    #[kani::unwind(4)]
    pub(crate) fn id_alloc() {
        let c: u16 = kani::any();
        let counter = AtomicU16::from(c);
        let a = next_packet_id(&counter);
        let b = next_packet_id(&counter);
        assert!(a != 0 && b != 0, "identifiers are never 0");
        assert!(a != b, "consecutive identifiers differ");
        assert!(a == if c == 0 { 1 } else { c }, "the identifier is the counter value, 0 skipped");
        assert!(b == succ(a), "identifiers advance by one, wrapping from 65535 to 1");
        // cycle length of succ over 1..=65535: succ^k(x) == ((x - 1 + k) mod 65535) + 1
        let x: u16 = kani::any();
        let k: u32 = kani::any();
        kani::assume(x != 0 && k >= 1 && k <= 65535);
        let xk = ((x as u32 - 1 + k) % 65535) + 1;
        assert!((xk == x as u32) == (k == 65535), "an identifier recurs only after 65535 allocations");
        kani::cover!(c == 0, "counter wrapped to 0");
        kani::cover!(c == 65535, "last identifier before the wrap");
    }

    //@ h name=sub_id_alloc props=C11 tier=quick cap=small to=600
    //@ claim: the subscription identifier handed to SubscribeOpts by subscribe() is accepted for every state of the shared counter: allocation never panics, the identifier is a legal Subscription Identifier (1..=268435455, a variable byte integer), and two consecutive allocations differ
    //@ bounds: every counter value (u32); two consecutive allocations
    //@ funcs: next_subscription_id, SubscribeOpts::subscription_identifier, VarSizeInt::try_from(u32), NonZero::try_from(VarSizeInt)
    #[kani::proof]
    #[kani::unwind(4)]
    pub(crate) fn sub_id_alloc() {
        let c: u32 = kani::any();
        let counter = AtomicU32::from(c);
        // what subscribe() does with the shared counter
        let a = next_subscription_id(&counter);
        let b = next_subscription_id(&counter);
        assert!(a >= 1 && a <= 0x0fff_ffff && b >= 1 && b <= 0x0fff_ffff, "a legal Subscription Identifier");
        let oa = SubscribeOpts::new().subscription_identifier(a);
        let ob = SubscribeOpts::new().subscription_identifier(b);
        assert!(a != b, "consecutive subscription identifiers differ");
        kani::cover!(c == 0x0fff_ffff, "largest legal subscription identifier");
        kani::cover!(c == u32::MAX, "counter about to wrap");
        core::mem::forget(oa);
        core::mem::forget(ob);
    }
}
