//! Integer kernels of the codec: VarSizeInt.
use crate::core::base_types::*;
use crate::core::utils::*;
use bytes::{Bytes, BytesMut};

//@ h name=varint_roundtrip props=C01,C02 tier=quick cap=small to=300
//@ claim: VarSizeInt try_from(u32/usize) -> encode -> try_from(&[u8]) round-trips for every u32; encoding is the minimal MQTT variable byte integer; values > 268435455 are refused
//@ bounds: full u32 range (exhaustive by solver); no other input
//@ funcs: VarSizeInt::try_from(u32), VarSizeInt::try_from(usize), VarSizeInt::try_from(&[u8]), VarSizeInt::encode, VarSizeInt::len, VarSizeInt::value
/// VarSizeInt: for every value 0..=0x0fff_ffff, `try_from(u32)` succeeds, `encode` writes the
/// minimal MQTT variable byte integer (reference formula), `len()` equals the bytes written, and
/// decoding those bytes yields the same value and length.  Values above the maximum are refused.
#[kani::proof]
#[kani::unwind(6)]
pub(crate) fn varint_roundtrip() {
    let v: u32 = kani::any();
    let r = VarSizeInt::try_from(v);
    if v > 0x0fff_ffff {
        assert!(r.is_err(), "value above 268435455 must be refused");
        return;
    }
    let x = r.unwrap();
    assert!(x.value() == v);
    let mut buf = BytesMut::new();
    x.encode(&mut buf);
    // reference encoding (MQTT 5, 1.5.5)
    let mut exp = [0u8; 4];
    let mut n = 0usize;
    let mut rest = v;
    loop {
        let mut b = (rest % 128) as u8;
        rest /= 128;
        if rest > 0 {
            b |= 0x80;
        }
        exp[n] = b;
        n += 1;
        if rest == 0 {
            break;
        }
    }
    assert!(buf.len() == n, "encoded length is the minimal one");
    assert!(x.len() == n && x.byte_len() == n);
    let mut i = 0;
    while i < n {
        assert!(buf[i] == exp[i], "encoded byte equals reference");
        i += 1;
    }
    let y = VarSizeInt::try_from(&buf[..]).unwrap();
    assert!(y.value() == v && y.len() == n);
    kani::cover!(n == 4, "four byte form reached");
    kani::cover!(n == 1, "one byte form reached");
    let z = VarSizeInt::try_from(v as usize).unwrap();
    assert!(z == x);
}

//@ h name=vacuity_twin_l1 props=C01,C02,C04,C12 tier=quick cap=small to=300 expect=fail
//@ claim: reachability witness for the L1 harness family: the same prologue as the decoder harnesses followed by assert!(false) must be reported FAILED
#[kani::proof]
#[kani::unwind(6)]
pub(crate) fn vacuity_twin_l1() {
    let b = crate::verif_h::sym::any_bytes::<4>(0);
    let mut d = Decoder::from(b);
    let r = d.try_decode::<u8>();
    core::mem::forget(r);
    assert!(false, "vacuity twin: must be reachable and fail");
}
