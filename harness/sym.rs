//! Small helpers shared by all harnesses.
use bytes::Bytes;

/// An arbitrary buffer of `min..=N` arbitrary bytes (N <= 15).  Content and length are drawn as ONE
/// non-deterministic u128: the counterexample pass runs CBMC with formula slicing (trace generation
/// without slicing exhausts memory), which drops irrelevant non-deterministic values from the
/// trace; a single packed value keeps Kani's concrete playback aligned.
pub(crate) fn any_bytes<const N: usize>(min: usize) -> Bytes {
    let x: u128 = kani::any();
    kani::assume(x != 0xdead_beef_dead_beef_dead_beef_dead_beef); // never sliced away, see s8()
    let b = x.to_le_bytes();
    let mut arr = [0u8; N];
    arr.copy_from_slice(&b[..N]);
    let raw: &'static [u8; N] = Box::leak(Box::new(arr));
    let len = b[15] as usize;
    kani::assume(len >= min && len <= N);
    Bytes::from_static(&raw[..len])
}

/// Packed source of symbolic harness inputs: every value a harness uses is a bit-slice of a few
/// non-deterministic u64 words drawn lazily, in order (same reason as `any_bytes`: it keeps Kani's
/// concrete playback aligned when the counterexample pass slices the formula).
static SRC_W: [core::sync::atomic::AtomicU64; 12] = [const { core::sync::atomic::AtomicU64::new(0) }; 12];
static SRC_AT: core::sync::atomic::AtomicUsize = core::sync::atomic::AtomicUsize::new(0);
pub(crate) fn src_init() {
    SRC_AT.store(0, core::sync::atomic::Ordering::Relaxed);
}
pub(crate) fn s8() -> u8 {
    use core::sync::atomic::Ordering::Relaxed;
    let at = SRC_AT.load(Relaxed);
    assert!(at < 96, "verif bound: symbolic input source exhausted");
    if at % 8 == 0 {
        let w: u64 = kani::any();
        // keeps the word in the sliced formula (assumptions are never sliced away), so that the
        // counterexample trace lists every word and the native playback stays aligned
        kani::assume(w != 0xdead_beef_dead_beef);
        SRC_W[at / 8].store(w, Relaxed);
    }
    SRC_AT.store(at + 1, Relaxed);
    (SRC_W[at / 8].load(Relaxed) >> (8 * (at % 8))) as u8
}
pub(crate) fn sb() -> bool {
    s8() & 1 != 0
}
pub(crate) fn s16() -> u16 {
    (s8() as u16) | ((s8() as u16) << 8)
}
pub(crate) fn s32() -> u32 {
    (s16() as u32) | ((s16() as u32) << 16)
}

/// Arbitrary bytes as a leaked slice.
pub(crate) fn any_slice<const N: usize>(min: usize) -> &'static [u8] {
    let raw: &'static [u8; N] = Box::leak(Box::new(kani::any()));
    let len: usize = kani::any();
    kani::assume(len >= min && len <= N);
    &raw[..len]
}

/// Stub for `core::str::from_utf8` (ASCII only; see vsupport).
pub(crate) fn utf8_stub(v: &[u8]) -> Result<&str, core::str::Utf8Error> {
    vsupport::utf8_ascii_stub(v)
}

use crate::core::base_types::*;
use crate::core::error::*;
use crate::core::properties::*;
use crate::core::utils::*;

/// Arbitrary ASCII string/binary content of 0..=N bytes.
pub(crate) fn any_ascii<const N: usize>() -> Bytes {
    let raw: &'static [u8; N] = Box::leak(Box::new(kani::any()));
    let len: usize = kani::any();
    kani::assume(len <= N);
    let mut i = 0;
    while i < N {
        kani::assume(raw[i] < 0x80);
        i += 1;
    }
    Bytes::from_static(&raw[..len])
}

fn nz16() -> NonZero<u16> {
    let v: u16 = kani::any();
    kani::assume(v != 0);
    NonZero::try_from(v).unwrap()
}

/// An arbitrary well-formed `Property` value (any of the 27 kinds, arbitrary payload; strings and
/// binaries of 0..=2 bytes, ASCII).
pub(crate) fn any_property() -> Property {
    let sel: u8 = kani::any();
    kani::assume(sel < 27);
    match sel {
        0 => Property::PayloadFormatIndicator(PayloadFormatIndicator(kani::any())),
        1 => Property::MessageExpiryInterval(MessageExpiryInterval(kani::any())),
        2 => Property::ContentType(ContentType(UTF8String(any_ascii::<2>()))),
        3 => Property::ResponseTopic(ResponseTopic(UTF8String(any_ascii::<2>()))),
        4 => Property::CorrelationData(CorrelationData(Binary(any_bytes::<2>(0)))),
        5 => {
            let v: u32 = kani::any();
            kani::assume(v != 0 && v <= 0x0fff_ffff);
            Property::SubscriptionIdentifier(SubscriptionIdentifier(
                NonZero::try_from(VarSizeInt::try_from(v).unwrap()).unwrap(),
            ))
        }
        6 => Property::SessionExpiryInterval(SessionExpiryInterval(kani::any())),
        7 => Property::AssignedClientIdentifier(AssignedClientIdentifier(UTF8String(any_ascii::<2>()))),
        8 => Property::ServerKeepAlive(ServerKeepAlive(kani::any())),
        9 => Property::AuthenticationMethod(AuthenticationMethod(UTF8String(any_ascii::<2>()))),
        10 => Property::AuthenticationData(AuthenticationData(Binary(any_bytes::<2>(0)))),
        11 => Property::RequestProblemInformation(RequestProblemInformation(kani::any())),
        12 => Property::WillDelayInterval(WillDelayInterval(kani::any())),
        13 => Property::RequestResponseInformation(RequestResponseInformation(kani::any())),
        14 => Property::ResponseInformation(ResponseInformation(UTF8String(any_ascii::<2>()))),
        15 => Property::ServerReference(ServerReference(UTF8String(any_ascii::<2>()))),
        16 => Property::ReasonString(ReasonString(UTF8String(any_ascii::<2>()))),
        17 => Property::ReceiveMaximum(ReceiveMaximum(nz16())),
        18 => Property::TopicAliasMaximum(TopicAliasMaximum(kani::any())),
        19 => Property::TopicAlias(TopicAlias(nz16())),
        20 => {
            let q: u8 = kani::any();
            kani::assume(q < 3);
            Property::MaximumQoS(MaximumQoS(QoS::try_from(q).unwrap()))
        }
        21 => Property::RetainAvailable(RetainAvailable(kani::any())),
        22 => Property::UserProperty(UserProperty(UTF8StringPair(any_ascii::<1>(), any_ascii::<1>()))),
        23 => {
            let v: u32 = kani::any();
            kani::assume(v != 0);
            Property::MaximumPacketSize(MaximumPacketSize(NonZero::try_from(v).unwrap()))
        }
        24 => Property::WildcardSubscriptionAvailable(WildcardSubscriptionAvailable(kani::any())),
        25 => Property::SubscriptionIdentifierAvailable(SubscriptionIdentifierAvailable(kani::any())),
        _ => Property::SharedSubscriptionAvailable(SharedSubscriptionAvailable(kani::any())),
    }
}

/// Contract of `Property::try_decode`, used as its stub in the packet-level "arbitrary bytes"
/// harnesses (assume-guarantee): it never panics; it returns either an error or a well-formed
/// property whose `byte_len()` is between 2 and the input length.  The contract itself is what
/// `property_any` establishes on the real function (for inputs up to its bound).
pub(crate) fn property_contract(buf: Bytes) -> Result<Property, PropertyError> {
    if kani::any() {
        if kani::any() {
            return Err(InvalidPropertyId.into());
        }
        return Err(PropertyError::from(ConversionError::from(InsufficientBufferSize)));
    }
    let p = any_property();
    kani::assume(p.byte_len() <= buf.len());
    Ok(p)
}

/// Exact functional model of `<u16 as TryDecode>::try_decode` (big-endian value of the first two
/// bytes, InsufficientBufferSize on fewer).  poster's implementation folds over a slice iterator,
/// whose trip count CBMC's symbolic execution cannot resolve to a constant, which makes every
/// length read through it (string lengths) an opaque expression and every later offset symbolic.
/// The harness `prim_u16_exact` proves the real function equal to this model on all inputs up to
/// its bound; the structural C02 harnesses then use the model in its place (assume-guarantee).
pub(crate) fn u16_ref(bytes: Bytes) -> Result<u16, ConversionError> {
    if bytes.len() < 2 {
        return Err(InsufficientBufferSize.into());
    }
    Ok(((bytes[0] as u16) << 8) | bytes[1] as u16)
}

/// Stub for `core::str::from_utf8` in the *well-formed input* harnesses: constrains the input to
/// ASCII (kani::assume) and returns Ok without branching on the content.  A branch on symbolic
/// content would make the Result's payload an opaque if-then-else for CBMC's symbolic execution
/// and with it every later offset.  For ASCII input the real function returns Ok with the same
/// bytes, so the stub equals the real function on the domain the harness explores.
pub(crate) fn utf8_assume_ascii(v: &[u8]) -> Result<&str, core::str::Utf8Error> {
    let mut i = 0;
    while i < v.len() {
        kani::assume(v[i] < 0x80);
        i += 1;
    }
    Ok(vsupport::ascii_unchecked(v))
}

/// Cheapest stub of `Property::try_decode` (always an error): used only by the small sibling
/// harnesses from which a concrete assignment is extracted after a full-size harness failed.
pub(crate) fn property_err(_buf: Bytes) -> Result<Property, PropertyError> {
    Err(InvalidPropertyId.into())
}
