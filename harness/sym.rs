//! Small helpers shared by all harnesses.
use bytes::Bytes;

/// An arbitrary buffer of `min..=N` arbitrary bytes.
pub(crate) fn any_bytes<const N: usize>(min: usize) -> Bytes {
    let raw: &'static [u8; N] = Box::leak(Box::new(kani::any()));
    let len: usize = kani::any();
    kani::assume(len >= min && len <= N);
    Bytes::from_static(&raw[..len])
}

/// Arbitrary bytes as a leaked slice.
pub(crate) fn any_slice<const N: usize>(min: usize) -> &'static [u8] {
    let raw: &'static [u8; N] = Box::leak(Box::new(kani::any()));
    let len: usize = kani::any();
    kani::assume(len >= min && len <= N);
    &raw[..len]
}

/// Stub for `core::str::from_utf8` (ASCII only; see vsupport).
pub(crate) fn utf8_stub(v: &[u8]) -> Result<&str, core::str::Utf8Error> {
    vsupport::utf8_ascii_stub(v)
}
