// Included at the end of src/client/context.rs (scratch copy only): harnesses that need the
// module-private items of the actor.
#[cfg(kani)]
mod verif_in_context {
    use super::*;

    pub(crate) struct NoRx;
    impl AsyncRead for NoRx {
        fn poll_read(
            self: core::pin::Pin<&mut Self>,
            _cx: &mut core::task::Context<'_>,
            _buf: &mut [u8],
        ) -> core::task::Poll<std::io::Result<usize>> {
            core::task::Poll::Pending
        }
    }
    pub(crate) struct NoTx;
    impl AsyncWrite for NoTx {
        fn poll_write(
            self: core::pin::Pin<&mut Self>,
            _cx: &mut core::task::Context<'_>,
            buf: &[u8],
        ) -> core::task::Poll<std::io::Result<usize>> {
            core::task::Poll::Ready(Ok(buf.len()))
        }
        fn poll_flush(
            self: core::pin::Pin<&mut Self>,
            _cx: &mut core::task::Context<'_>,
        ) -> core::task::Poll<std::io::Result<()>> {
            core::task::Poll::Ready(Ok(()))
        }
        fn poll_close(
            self: core::pin::Pin<&mut Self>,
            _cx: &mut core::task::Context<'_>,
        ) -> core::task::Poll<std::io::Result<()>> {
            core::task::Poll::Ready(Ok(()))
        }
    }

    type Ctx = Context<NoRx, NoTx>;

    fn any_connection() -> Connection {
        Connection {
            disconnection_timestamp: None,
            session_expiry_interval: kani::any(),
            remote_receive_maximum: kani::any(),
            remote_max_packet_size: kani::any(),
            send_quota: kani::any(),
        }
    }

    //@ h name=mps_exact props=C12 tier=quick cap=small to=300
    //@ claim: validate_packet_size(connection, packet) is Ok iff no Maximum Packet Size is recorded or packet.len() <= it; the error is MaximumPacketSizeExceeded
    //@ bounds: every M in Option<u32>; every packet length 0..=70000 (contents never read); other Connection fields arbitrary
    //@ funcs: Context::validate_packet_size
    /// C12: `validate_packet_size` is exact: Ok iff no maximum announced or len <= maximum.
    /// The packet is a slice of symbolic length whose contents are never read.
    #[kani::proof]
    pub(crate) fn mps_exact() {
        const N: usize = 70000;
        static ZEROS: [u8; N] = [0; N];
        let connection = any_connection();
        let len: usize = kani::any();
        kani::assume(len <= N);
        let r = Ctx::validate_packet_size(&connection, &ZEROS[..len]);
        match connection.remote_max_packet_size {
            None => assert!(r.is_ok(), "no maximum announced: always accepted"),
            Some(m) => {
                if len <= m as usize {
                    assert!(r.is_ok(), "L <= M accepted");
                } else {
                    assert!(
                        matches!(r, Err(MqttError::MaximumPacketSizeExceeded(_))),
                        "L > M refused with MaximumPacketSizeExceeded"
                    );
                }
                kani::cover!(len == m as usize, "L == M reached");
                kani::cover!(len == m as usize + 1, "L == M+1 reached");
            }
        }
        core::mem::forget(r);
    }
}
