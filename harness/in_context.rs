// Included at the end of src/client/context.rs (scratch copy only): harnesses that need the
// module-private items of the actor.
#[cfg(kani)]
mod verif_in_context {
    use super::*;

    pub(crate) struct NoRx;
    impl AsyncRead for NoRx {
        fn poll_read(
            self: core::pin::Pin<&mut Self>,
            _cx: &mut core::task::Context<'_>,
            _buf: &mut [u8],
        ) -> core::task::Poll<std::io::Result<usize>> {
            core::task::Poll::Pending
        }
    }
    pub(crate) struct NoTx;
    impl AsyncWrite for NoTx {
        fn poll_write(
            self: core::pin::Pin<&mut Self>,
            _cx: &mut core::task::Context<'_>,
            buf: &[u8],
        ) -> core::task::Poll<std::io::Result<usize>> {
            core::task::Poll::Ready(Ok(buf.len()))
        }
        fn poll_flush(
            self: core::pin::Pin<&mut Self>,
            _cx: &mut core::task::Context<'_>,
        ) -> core::task::Poll<std::io::Result<()>> {
            core::task::Poll::Ready(Ok(()))
        }
        fn poll_close(
            self: core::pin::Pin<&mut Self>,
            _cx: &mut core::task::Context<'_>,
        ) -> core::task::Poll<std::io::Result<()>> {
            core::task::Poll::Ready(Ok(()))
        }
    }

    type Ctx = Context<NoRx, NoTx>;

    fn any_connection() -> Connection {
        Connection {
            disconnection_timestamp: None,
            session_expiry_interval: kani::any(),
            remote_receive_maximum: kani::any(),
            remote_max_packet_size: kani::any(),
            send_quota: kani::any(),
        }
    }

    //@ h name=mps_exact props=C12 tier=quick cap=small to=300
    //@ claim: validate_packet_size(connection, packet) is Ok iff no Maximum Packet Size is recorded or packet.len() <= it; the error is MaximumPacketSizeExceeded
    //@ bounds: every M in Option<u32>; every packet length 0..=70000 (contents never read); other Connection fields arbitrary
    //@ funcs: Context::validate_packet_size
    /// C12: `validate_packet_size` is exact: Ok iff no maximum announced or len <= maximum.
    /// The packet is a slice of symbolic length whose contents are never read.
    #[kani::proof]
    pub(crate) fn mps_exact() {
        const N: usize = 70000;
        static ZEROS: [u8; N] = [0; N];
        let connection = any_connection();
        let len: usize = kani::any();
        kani::assume(len <= N);
        let r = Ctx::validate_packet_size(&connection, &ZEROS[..len]);
        match connection.remote_max_packet_size {
            None => assert!(r.is_ok(), "no maximum announced: always accepted"),
            Some(m) => {
                if len <= m as usize {
                    assert!(r.is_ok(), "L <= M accepted");
                } else {
                    assert!(
                        matches!(r, Err(MqttError::MaximumPacketSizeExceeded(_))),
                        "L > M refused with MaximumPacketSizeExceeded"
                    );
                }
                kani::cover!(len == m as usize, "L == M reached");
                kani::cover!(len == m as usize + 1, "L == M+1 reached");
            }
        }
        core::mem::forget(r);
    }

    use crate::core::collections::UserProperties;
    use crate::core::properties::*;
    use core::sync::atomic::{AtomicU64, Ordering};

    fn nz16(v: u16) -> NonZero<u16> {
        NonZero::try_from(v).unwrap()
    }

    //@ h name=connack_quota props=C10,C12 tier=quick cap=small to=600
    //@ claim: handle_connack sets Receive Maximum R and the send quota to the CONNACK's Receive Maximum (65535 when the property is absent), records Maximum Packet Size when announced (and leaves it as it was otherwise), and takes the session expiry interval from the CONNACK when present
    //@ bounds: every prior Connection state, every R in 1..=65535 or absent, every M in 1..=2^32-1 or absent, every session expiry or absent; other CONNACK fields at their defaults
    //@ funcs: Context::handle_connack, ConnackRxBuilder::build, ReceiveMaximum::default
    #[kani::proof]
    #[kani::unwind(4)]
    pub(crate) fn connack_quota() {
        let mut connection = any_connection();
        let before_mps = connection.remote_max_packet_size;
        let before_sei = connection.session_expiry_interval;
        let (p_rm, rm): (bool, u16) = (kani::any(), kani::any());
        kani::assume(rm != 0);
        let (p_mps, mps): (bool, u32) = (kani::any(), kani::any());
        kani::assume(mps != 0);
        let (p_sei, sei): (bool, u32) = (kani::any(), kani::any());
        let mut connack = default_connack();
        // what the decoder's builder does: absent Receive Maximum reads as the type's default
        connack.receive_maximum = if p_rm { ReceiveMaximum(nz16(rm)) } else { ReceiveMaximum::default() };
        connack.maximum_packet_size = if p_mps { Some(MaximumPacketSize(NonZero::try_from(mps).unwrap())) } else { None };
        connack.session_expiry_interval = if p_sei { Some(SessionExpiryInterval(sei)) } else { None };
        Ctx::handle_connack(&mut connection, &connack);
        let r = if p_rm { rm } else { 65535 };
        assert!(connection.remote_receive_maximum == r, "R is the CONNACK's Receive Maximum, 65535 when absent");
        assert!(connection.send_quota == r, "the send quota starts at R");
        assert!(connection.remote_max_packet_size == if p_mps { Some(mps) } else { before_mps }, "Maximum Packet Size is the announced one");
        assert!(connection.session_expiry_interval == if p_sei { sei } else { before_sei }, "session expiry interval from CONNACK when present");
        kani::cover!(!p_rm, "Receive Maximum absent");
        kani::cover!(p_rm && rm == 1, "Receive Maximum 1");
        kani::cover!(p_mps && mps == u32::MAX, "largest Maximum Packet Size");
        core::mem::forget(connack);
    }

    static ELAPSED_SECS: AtomicU64 = AtomicU64::new(0);
    static ELAPSED_NANOS: AtomicU64 = AtomicU64::new(0);
    pub(crate) fn elapsed_stub(_t: &SystemTime) -> Result<core::time::Duration, std::time::SystemTimeError> {
        Ok(core::time::Duration::new(ELAPSED_SECS.load(Ordering::Relaxed), ELAPSED_NANOS.load(Ordering::Relaxed) as u32))
    }

    //@ h name=expiry_kernel props=C17 tier=quick cap=small to=600
    //@ claim: session_expired (the clock is an arbitrary input): interval 0 => expired; interval u32::MAX => never expired; otherwise more than `interval` whole seconds since the disconnection => expired, fewer => not expired (exactly `interval` whole seconds is left unconstrained)
    //@ bounds: every session expiry interval (u32), every elapsed time (u64 seconds + nanoseconds) via a stub of SystemTime::elapsed
    //@ assume: SystemTime::elapsed replaced by a stub returning an arbitrary duration
    //@ funcs: Context::session_expired, Context::is_reconnect
    #[kani::proof]
    #[kani::unwind(4)]
    #[kani::stub(std::time::SystemTime::elapsed, elapsed_stub)]
    pub(crate) fn expiry_kernel() {
        let mut connection = any_connection();
        let secs: u64 = kani::any();
        let nanos: u32 = kani::any();
        kani::assume(nanos < 1_000_000_000);
        ELAPSED_SECS.store(secs, Ordering::Relaxed);
        ELAPSED_NANOS.store(nanos as u64, Ordering::Relaxed);
        // Solver build: the stub makes elapsed() return (secs, nanos) for any timestamp.  Native
        // replay (no stubs): use a real timestamp that lies (secs, nanos) in the past instead.
        let d = core::time::Duration::new(secs, nanos);
        let stubbed = std::time::UNIX_EPOCH.elapsed().ok() == Some(d);
        connection.disconnection_timestamp = if stubbed {
            Some(std::time::UNIX_EPOCH)
        } else {
            match SystemTime::now().checked_sub(d) {
                Some(t) => Some(t),
                None => return,
            }
        };
        let interval = connection.session_expiry_interval;
        let expired = Ctx::session_expired(&connection);
        if interval == 0 {
            assert!(expired, "expiry interval 0: the session ends with the connection");
        } else if interval == u32::MAX {
            assert!(!expired, "expiry interval 0xFFFFFFFF: the session never expires");
        } else if secs > interval as u64 {
            assert!(expired, "the interval has elapsed: session expired");
        } else if secs < interval as u64 {
            assert!(!expired, "the interval has not elapsed: session still alive");
        }
        kani::cover!(interval != 0 && interval != u32::MAX && secs > interval as u64, "elapsed beyond a finite interval");
        kani::cover!(interval != 0 && interval != u32::MAX && secs < interval as u64, "within a finite interval");
        kani::cover!(secs > u32::MAX as u64, "elapsed beyond u32");
    }

    pub(crate) fn default_connack() -> ConnackRx {
        ConnackRx {
            session_present: false,
            reason: ConnectReason::Success,
            wildcard_subscription_available: WildcardSubscriptionAvailable::default(),
            subscription_identifier_available: SubscriptionIdentifierAvailable::default(),
            shared_subscription_available: SharedSubscriptionAvailable::default(),
            maximum_qos: MaximumQoS::default(),
            retain_available: RetainAvailable::default(),
            server_keep_alive: None,
            receive_maximum: ReceiveMaximum::default(),
            topic_alias_maximum: TopicAliasMaximum::default(),
            session_expiry_interval: None,
            maximum_packet_size: None,
            authentication_data: None,
            assigned_client_identifier: None,
            reason_string: None,
            response_information: None,
            server_reference: None,
            authentication_method: None,
            user_property: UserProperties::new(),
        }
    }

    fn ack_rx<R: Default>(id: u16) -> AckRx<R> {
        AckRx { packet_identifier: nz16(id), reason: R::default(), reason_string: None, user_property: UserProperties::new() }
    }

    /// kind: 0 subscribe/suback, 1 unsubscribe/unsuback, 2 pingreq/pingresp, 3 publish q1/puback,
    /// 4 publish q2/pubrec, 5 pubrel/pubcomp
    fn tx_id(kind: u8, id: u16) -> usize {
        match kind {
            0 => {
                let mut b = SubscribeTxBuilder::default();
                b.packet_identifier(nz16(id));
                b.payload((crate::core::base_types::UTF8StringRef("t"), SubscriptionOptions::default()));
                let p = TxPacket::Subscribe(b.build().unwrap());
                let r = utils::tx_action_id(&p);
                core::mem::forget(p);
                r
            }
            1 => {
                let mut b = UnsubscribeTxBuilder::default();
                b.packet_identifier(nz16(id));
                b.payload(crate::core::base_types::UTF8StringRef("t"));
                let p = TxPacket::Unsubscribe(b.build().unwrap());
                let r = utils::tx_action_id(&p);
                core::mem::forget(p);
                r
            }
            2 => utils::tx_action_id(&TxPacket::Pingreq(PingreqTxBuilder::default().build().unwrap())),
            3 | 4 => {
                let mut b = PublishTxBuilder::default();
                b.topic_name(crate::core::base_types::UTF8StringRef("t"));
                b.qos(if kind == 3 { QoS::AtLeastOnce } else { QoS::ExactlyOnce });
                b.packet_identifier(nz16(id));
                let p = TxPacket::Publish(b.build().unwrap());
                let r = utils::tx_action_id(&p);
                core::mem::forget(p);
                r
            }
            _ => {
                let mut b = PubrelTxBuilder::default();
                b.packet_identifier(nz16(id));
                let p = TxPacket::Pubrel(b.build().unwrap());
                let r = utils::tx_action_id(&p);
                core::mem::forget(p);
                r
            }
        }
    }

    fn rx_id(kind: u8, id: u16) -> usize {
        let p = match kind {
            0 => RxPacket::Suback(SubackRx { packet_identifier: nz16(id), reason_string: None, user_property: UserProperties::new(), payload: Vec::new() }),
            1 => RxPacket::Unsuback(UnsubackRx { packet_identifier: nz16(id), reason_string: None, user_property: UserProperties::new(), payload: Vec::new() }),
            2 => RxPacket::Pingresp(PingrespRx {}),
            3 => RxPacket::Puback(ack_rx(id)),
            4 => RxPacket::Pubrec(ack_rx(id)),
            _ => RxPacket::Pubcomp(ack_rx(id)),
        };
        let r = utils::rx_action_id(&p);
        core::mem::forget(p);
        r
    }

    //@ h name=action_id_agree props=C05 tier=quick cap=small to=900
    //@ claim: the action id computed on the sending side (tx_action_id of SUBSCRIBE, UNSUBSCRIBE, PINGREQ, PUBLISH QoS 1, PUBLISH QoS 2, PUBREL) equals the one computed from an inbound packet (rx_action_id) exactly when the inbound packet is the acknowledgement type of that request and carries the same packet identifier (any PINGRESP for any PINGREQ); so an acknowledgement can only complete an operation of its own kind and identifier
    //@ bounds: all six request kinds x all six acknowledgement kinds (two symbolic kind selectors), all non-zero packet identifiers on both sides
    //@ funcs: utils::tx_action_id, utils::rx_action_id
    #[kani::proof]
    #[kani::unwind(4)]
    pub(crate) fn action_id_agree() {
        let (k1, k2): (u8, u8) = (kani::any(), kani::any());
        kani::assume(k1 < 6 && k2 < 6);
        let (i1, i2): (u16, u16) = (kani::any(), kani::any());
        kani::assume(i1 != 0 && i2 != 0);
        let t = tx_id(k1, i1);
        let r = rx_id(k2, i2);
        let should_match = k1 == k2 && (k1 == 2 || i1 == i2);
        assert!((t == r) == should_match, "request and acknowledgement agree on the action id exactly when kind and packet identifier match");
        kani::cover!(t == r && k1 == 4, "PUBLISH QoS 2 matched by its PUBREC");
        kani::cover!(t != r && k1 == k2, "same kind, different identifier");
        kani::cover!(t != r && i1 == i2, "same identifier, different kind");
    }

    // ------------------------------------------------------------------ L3: one actor step

    /// Writer mock recording into statics (TxPacketStream's inner stream is private to its module).
    static OUT: [core::sync::atomic::AtomicU8; 16] = [const { core::sync::atomic::AtomicU8::new(0) }; 16];
    static OUT_N: core::sync::atomic::AtomicUsize = core::sync::atomic::AtomicUsize::new(0);
    fn out_n() -> usize {
        OUT_N.load(Ordering::Relaxed)
    }
    fn out(i: usize) -> u8 {
        OUT[i].load(Ordering::Relaxed)
    }
    /// transport behaviour: 0 = accepts every write at once; 1 = answers Pending once, then
    /// accepts; 2 = fails every write with BrokenPipe
    static TX_MODE: core::sync::atomic::AtomicU8 = core::sync::atomic::AtomicU8::new(0);
    static TX_PENDINGS: core::sync::atomic::AtomicUsize = core::sync::atomic::AtomicUsize::new(0);
    pub(crate) struct VecTx;
    impl VecTx {
        fn new() -> VecTx {
            OUT_N.store(0, Ordering::Relaxed);
            TX_MODE.store(0, Ordering::Relaxed);
            TX_PENDINGS.store(0, Ordering::Relaxed);
            VecTx
        }
    }
    impl AsyncWrite for VecTx {
        fn poll_write(self: core::pin::Pin<&mut Self>, _cx: &mut core::task::Context<'_>, buf: &[u8]) -> core::task::Poll<std::io::Result<usize>> {
            match TX_MODE.load(Ordering::Relaxed) {
                1 => {
                    // Pending once (a real transport registers the waker here), then ready
                    TX_MODE.store(0, Ordering::Relaxed);
                    TX_PENDINGS.store(TX_PENDINGS.load(Ordering::Relaxed) + 1, Ordering::Relaxed);
                    return core::task::Poll::Pending;
                }
                2 => return core::task::Poll::Ready(Err(std::io::Error::from(std::io::ErrorKind::BrokenPipe))),
                _ => {}
            }
            let mut i = 0;
            while i < buf.len() {
                let k = OUT_N.load(Ordering::Relaxed);
                assert!(k < 16, "verif bound: mock writer capacity");
                OUT[k].store(buf[i], Ordering::Relaxed);
                OUT_N.store(k + 1, Ordering::Relaxed);
                i += 1;
            }
            core::task::Poll::Ready(Ok(buf.len()))
        }
        fn poll_flush(self: core::pin::Pin<&mut Self>, _cx: &mut core::task::Context<'_>) -> core::task::Poll<std::io::Result<()>> {
            core::task::Poll::Ready(Ok(()))
        }
        fn poll_close(self: core::pin::Pin<&mut Self>, _cx: &mut core::task::Context<'_>) -> core::task::Poll<std::io::Result<()>> {
            core::task::Poll::Ready(Ok(()))
        }
    }
    type CtxV = Context<NoRx, VecTx>;

    fn task_cx() -> core::task::Context<'static> {
        let w: &'static core::task::Waker = Box::leak(Box::new(futures::task::noop_waker()));
        core::task::Context::from_waker(w)
    }

    //@ h name=probe_step_puback props=C10 tier=off cap=small to=3600 mem=45
    //@ claim: experiment: one handle_packet(PUBACK) step
    #[kani::proof]
    #[kani::unwind(4)]
    pub(crate) fn probe_step_puback() {
        let mut cx = task_cx();
        let mut tx = TxPacketStream::from(VecTx::new());
        let r: u16 = kani::any();
        let q: u16 = kani::any();
        kani::assume(r >= 1 && q <= r);
        let mut connection = Connection { disconnection_timestamp: None, session_expiry_interval: 0, remote_receive_maximum: r, remote_max_packet_size: None, send_quota: q };
        let mut session = Session { awaiting_ack: VecDeque::new(), subscriptions: VecDeque::new(), retrasmit_queue: VecDeque::new() };
        let id: u16 = 7;
        let (s, mut rcv) = oneshot::channel();
        let aid = ((PubackRx::PACKET_ID as usize) << 24) | ((id as usize) << 8);
        session.awaiting_ack.push_back((aid, s));
        let pkt = RxPacket::Puback(ack_rx(id));
        {
            let mut f = core::pin::pin!(CtxV::handle_packet(&mut tx, &mut connection, &mut session, pkt));
            match core::future::Future::poll(f.as_mut(), &mut cx) {
                core::task::Poll::Ready(Ok(())) => {}
                _ => panic!("step must complete"),
            }
        }
        assert!(connection.send_quota <= r);
        if q < r {
            assert!(connection.send_quota == q + 1);
        }
        assert!(session.awaiting_ack.is_empty());
        let got = rcv.try_recv();
        assert!(matches!(got, Ok(Some(Ok(RxPacket::Puback(_))))));
        kani::cover!(q < r, "slot freed");
        kani::cover!(q == r, "quota already full");
        core::mem::forget(session);
        core::mem::forget(got);
        core::mem::forget(rcv);
    }

    //@ h name=step_retransmit props=C17 tier=quick cap=small to=1200
    //@ claim: retransmit() writes the stored packets of the retransmit queue in their original order, each exactly once and unchanged, clears the recorded disconnection, and leaves the queue as it was
    //@ bounds: queue of two entries of 2 and 3 arbitrary bytes; a writer that accepts everything at once
    //@ funcs: Context::retransmit, TxPacketStream::write
    #[kani::proof]
    #[kani::unwind(8)]
    pub(crate) fn step_retransmit() {
        let mut cx = task_cx();
        let mut tx = TxPacketStream::from(VecTx::new());
        let mut connection = any_connection();
        connection.disconnection_timestamp = Some(std::time::UNIX_EPOCH);
        let mut session = Session { awaiting_ack: VecDeque::new(), subscriptions: VecDeque::new(), retrasmit_queue: VecDeque::new() };
        let a: &'static [u8; 2] = Box::leak(Box::new(kani::any()));
        let b: &'static [u8; 3] = Box::leak(Box::new(kani::any()));
        session.retrasmit_queue.push_back((1, Bytes::from_static(&a[..])));
        session.retrasmit_queue.push_back((2, Bytes::from_static(&b[..])));
        {
            let mut f = core::pin::pin!(CtxV::retransmit(&mut tx, &mut connection, &mut session));
            match core::future::Future::poll(f.as_mut(), &mut cx) {
                core::task::Poll::Ready(Ok(())) => {}
                _ => panic!("retransmit completes when the writer accepts everything"),
            }
        }
        assert!(connection.disconnection_timestamp.is_none(), "the recorded disconnection is cleared");
        assert!(out_n() == 5, "every stored packet is written exactly once");
        assert!(out(0) == a[0] && out(1) == a[1], "first entry first, unchanged");
        assert!(out(2) == b[0] && out(3) == b[1] && out(4) == b[2], "second entry second, unchanged");
        assert!(session.retrasmit_queue.len() == 2, "the queue is kept for later acknowledgements");
        kani::cover!(a[0] == 0x3a && b[0] == 0x62, "a PUBLISH with DUP=1 then a PUBREL");
        kani::cover!(out_n() == 5, "five bytes on the wire");
        core::mem::forget(session);
    }

    /// One `handle_message` step from an arbitrary valid pre-state: R and quota symbolic with
    /// quota <= R, Maximum Packet Size symbolic (absent or any u32), one pre-existing waiter and
    /// one pre-existing retransmit entry (to observe FIFO append and non-interference).
    /// kind: 1 = PUBLISH QoS 1, 2 = PUBLISH QoS 2, 3 = PUBREL, 4 = UNSUBSCRIBE-like AwaitAck,
    /// 5 = PINGREQ AwaitAck, 6 = FireAndForget (QoS 0 PUBLISH), 7 = FireAndForget (DISCONNECT),
    /// 8 = Subscribe
    fn step_msg_body(kind: u8, cancelled: bool, mode: u8) {
        let mut cx = task_cx();
        let mut tx = TxPacketStream::from(VecTx::new());
        let r: u16 = kani::any();
        let q: u16 = kani::any();
        kani::assume(r >= 1 && q <= r);
        let mps: Option<u32> = kani::any();
        let mut connection = Connection { disconnection_timestamp: None, session_expiry_interval: kani::any(), remote_receive_maximum: r, remote_max_packet_size: mps, send_quota: q };
        let mut session = Session { awaiting_ack: VecDeque::new(), subscriptions: VecDeque::new(), retrasmit_queue: VecDeque::new() };
        let (s0, mut rcv0) = oneshot::channel::<Result<RxPacket, MqttError>>();
        session.awaiting_ack.push_back((0x0400_0100, s0));
        static OLD: [u8; 4] = [0x3a, 2, 0, 1];
        session.retrasmit_queue.push_back((0x0400_0100, Bytes::from_static(&OLD)));

        let retain: bool = kani::any();
        let (idh, idl): (u8, u8) = (kani::any(), kani::any());
        kani::assume(idh != 0 || idl != 0);
        let aid: usize = kani::any();
        let sub_id: usize = kani::any();
        let mut packet = BytesMut::new();
        let len: usize = match kind {
            1 | 2 | 6 => {
                let hdr = 0x30 | retain as u8 | if kind == 1 { 2 } else if kind == 2 { 4 } else { 0 };
                packet.extend_from_slice(&[hdr, 6, 0, 1, b't', idh, idl, 0]);
                8
            }
            3 => {
                packet.extend_from_slice(&[0x62, 2, idh, idl]);
                4
            }
            4 => {
                packet.extend_from_slice(&[0xa2, 6, idh, idl, 0, 0, 1, b't']);
                8
            }
            5 => {
                packet.extend_from_slice(&[0xc0, 0]);
                2
            }
            7 => {
                packet.extend_from_slice(&[0xe0, 2, 0, 0]);
                4
            }
            _ => {
                packet.extend_from_slice(&[0x82, 8, idh, idl, 0, 0, 1, b't', 2, 0]);
                10
            }
        };
        let first = packet[0];
        let too_large = match mps {
            Some(m) => len > m as usize,
            None => false,
        };
        let (sa, mut ra) = oneshot::channel::<Result<RxPacket, MqttError>>();
        let (sf, mut rf) = oneshot::channel::<Result<(), MqttError>>();
        let (st, mut rt) = mpsc::unbounded::<RxPacket>();
        if cancelled {
            // the caller dropped the operation's future after queueing the request
            ra.close();
            rf.close();
            rt.close();
        }
        let msg = match kind {
            1..=5 => ContextMessage::AwaitAck(AwaitAck { action_id: aid, packet, response_channel: sa }),
            6 | 7 => ContextMessage::FireAndForget(FireAndForget { packet, response_channel: sf }),
            _ => ContextMessage::Subscribe(Subscribe { action_id: aid, subscription_identifier: sub_id, packet, response_channel: sa, stream: st }),
        };
        let refused = too_large || ((kind == 1 || kind == 2) && q == 0);
        kani::cover!(!refused && mps.is_some(), "accepted with a Maximum Packet Size announced");
        kani::cover!(!refused && mps == Some(len as u32), "accepted at exactly L == M");
        TX_MODE.store(mode, Ordering::Relaxed);
        let res = {
            let mut f = core::pin::pin!(CtxV::handle_message(&mut tx, &mut connection, &mut session, msg));
            let mut p = core::future::Future::poll(f.as_mut(), &mut cx);
            if p.is_pending() {
                assert!(mode == 1 && !refused && TX_PENDINGS.load(Ordering::Relaxed) == 1, "the step is Pending only because the transport answered Pending (its waker is registered there)");
                assert!(out_n() == 0, "nothing reached the wire yet");
                // the transport is ready now; polling again finishes the step, writing the packet once
                p = core::future::Future::poll(f.as_mut(), &mut cx);
                kani::cover!(true, "opt: completed on the second poll after a Pending transport");
            }
            match p {
                core::task::Poll::Ready(x) => x,
                core::task::Poll::Pending => panic!("the step completes once the transport accepts the bytes"),
            }
        };
        if mode == 2 && !refused {
            match &res {
                Err(MqttError::SocketClosed(_)) => {}
                _ => panic!("a write error ends the step with SocketClosed"),
            }
            kani::cover!(true, "opt: write error reported");
            core::mem::forget(res);
            core::mem::forget(session);
            core::mem::forget(rcv0);
            core::mem::forget(ra);
            core::mem::forget(rf);
            core::mem::forget(rt);
            return;
        }
        assert!(res.is_ok(), "the step completes with Ok when the transport accepts the bytes, whether or not the caller is still there");
        core::mem::forget(res);
        assert!(connection.remote_receive_maximum == r && connection.remote_max_packet_size == mps, "the limits announced by the server are not touched");
        assert!(session.awaiting_ack[0].0 == 0x0400_0100 && matches!(rcv0.try_recv(), Ok(None)), "an earlier waiter stays registered, first in line, and is not completed");
        assert!(session.retrasmit_queue[0].0 == 0x0400_0100 && session.retrasmit_queue[0].1.len() == 4, "an earlier retransmit entry stays, first in line");
        let quota_limited = kind == 1 || kind == 2;
        if too_large || (quota_limited && q == 0) {
            assert!(out_n() == 0, "a refused request writes not a single byte");
            assert!(connection.send_quota == q, "a refused request takes no quota slot");
            assert!(session.awaiting_ack.len() == 1 && session.retrasmit_queue.len() == 1 && session.subscriptions.is_empty(), "a refused request leaves no waiter, retransmit entry or stream registration behind");
            if cancelled {
                // nobody is listening; only the bookkeeping above matters
            } else if kind == 6 || kind == 7 {
                match rf.try_recv() {
                    Ok(Some(Err(MqttError::MaximumPacketSizeExceeded(_)))) => {}
                    _ => panic!("the caller is told MaximumPacketSizeExceeded"),
                }
            } else {
                match ra.try_recv() {
                    Ok(Some(Err(MqttError::MaximumPacketSizeExceeded(_)))) => assert!(too_large, "MaximumPacketSizeExceeded only when L > M"),
                    Ok(Some(Err(MqttError::QuotaExceeded(_)))) => assert!(!too_large && quota_limited && q == 0, "QuotaExceeded only for a QoS>0 PUBLISH at quota 0"),
                    _ => panic!("the caller is told why the request was refused"),
                }
            }
            kani::cover!(too_large, "refused: larger than Maximum Packet Size");
            kani::cover!(!too_large, "opt: refused: quota exhausted");
        } else {
            assert!(out_n() == len, "exactly the packet is written, once");
            assert!(out(0) == first, "first byte unchanged on the wire (DUP=0 for a first transmission)");
            assert!(out(1) as usize == len - 2, "remaining length byte unchanged");
            assert!(connection.send_quota == if quota_limited { q - 1 } else { q }, "exactly a QoS>0 PUBLISH takes one quota slot; nothing else is limited");
            match kind {
                1 | 2 => {
                    assert!(session.awaiting_ack.len() == 2 && session.awaiting_ack[1].0 == aid, "waiter appended under the operation's action id");
                    assert!(session.retrasmit_queue.len() == 2 && session.retrasmit_queue[1].0 == aid, "PUBLISH stored for retransmission under its action id");
                    let stored = &session.retrasmit_queue[1].1;
                    assert!(stored.len() == len && stored[0] == first | 0x08, "the stored copy has DUP=1");
                    assert!(stored[5] == idh && stored[6] == idl && stored[4] == b't', "the stored copy carries the same identifier and content");
                    assert!(cancelled || matches!(ra.try_recv(), Ok(None)), "the operation stays pending until its acknowledgement");
                }
                3 => {
                    assert!(session.awaiting_ack.len() == 2 && session.awaiting_ack[1].0 == aid, "waiter appended");
                    assert!(session.retrasmit_queue.len() == 2 && session.retrasmit_queue[1].0 == aid, "PUBREL stored for retransmission");
                    let stored = &session.retrasmit_queue[1].1;
                    assert!(stored.len() == 4 && stored[0] == 0x62 && stored[2] == idh && stored[3] == idl, "the stored PUBREL is unchanged");
                    assert!(cancelled || matches!(ra.try_recv(), Ok(None)), "pending until PUBCOMP");
                }
                4 | 5 => {
                    assert!(session.awaiting_ack.len() == 2 && session.awaiting_ack[1].0 == aid, "waiter appended");
                    assert!(session.retrasmit_queue.len() == 1, "only PUBLISH and PUBREL are kept for retransmission");
                    assert!(cancelled || matches!(ra.try_recv(), Ok(None)), "pending until acknowledged");
                }
                6 | 7 => {
                    assert!(session.awaiting_ack.len() == 1 && session.retrasmit_queue.len() == 1, "fire-and-forget leaves nothing behind");
                    assert!(cancelled || matches!(rf.try_recv(), Ok(Some(Ok(())))), "completed once written");
                }
                _ => {
                    assert!(session.awaiting_ack.len() == 2 && session.awaiting_ack[1].0 == aid, "waiter appended");
                    assert!(session.subscriptions.len() == 1 && session.subscriptions[0].0 == sub_id, "stream registered under the subscription identifier when the SUBSCRIBE is sent");
                    assert!(session.retrasmit_queue.len() == 1, "SUBSCRIBE is not kept for retransmission");
                    assert!(cancelled || matches!(ra.try_recv(), Ok(None)), "pending until SUBACK");
                }
            }
            assert!(session.subscriptions.len() == if kind == 8 { 1 } else { 0 }, "stream registrations only for subscribe");
            kani::cover!(quota_limited && q == 1, "opt: last quota slot taken");
        }
        core::mem::forget(session);
        core::mem::forget(rcv0);
        core::mem::forget(ra);
        core::mem::forget(rf);
        core::mem::forget(rt);
    }

    macro_rules! step_msg {
        ($name:ident, $kind:expr) => {
            step_msg!($name, $kind, false, 0);
        };
        ($name:ident, $kind:expr, $cancelled:expr) => {
            step_msg!($name, $kind, $cancelled, 0);
        };
        ($name:ident, $kind:expr, $cancelled:expr, $mode:expr) => {
            #[kani::proof]
            #[kani::unwind(12)]
            pub(crate) fn $name() {
                step_msg_body($kind, $cancelled, $mode);
            }
        };
    }
    //@ h name=step_msg_publish_q1 props=C05,C06,C10,C12,C17 tier=quick cap=small to=1200
    //@ h name=step_msg_publish_q2 props=C05,C06,C10,C12,C17 tier=quick cap=small to=1200
    //@ h name=step_msg_pubrel props=C05,C06,C10,C12,C17 tier=thorough cap=small to=1200
    //@ h name=step_msg_unsubscribe props=C05,C10,C12 tier=thorough cap=small to=1200
    //@ h name=step_msg_pingreq props=C05,C10,C12 tier=thorough cap=small to=1200
    //@ h name=step_msg_publish_q0 props=C06,C10,C12 tier=quick cap=small to=1200
    //@ h name=step_msg_disconnect props=C10,C12 tier=thorough cap=small to=1200
    //@ h name=step_msg_subscribe props=C05,C07,C10,C12 tier=quick cap=small to=1200
    //@ claim: one Context::handle_message step from every valid pre-state: a request larger than the announced Maximum Packet Size is refused with MaximumPacketSizeExceeded (exactly when L > M), a QoS>0 PUBLISH at quota 0 with QuotaExceeded, and a refused request writes nothing, takes no quota slot and leaves no waiter / retransmit entry / stream registration; an accepted request is written exactly once and unchanged (DUP=0), only a QoS>0 PUBLISH takes exactly one quota slot, the waiter is appended under the operation's action id behind earlier waiters (which stay pending and first in line), PUBLISH (copy with DUP=1, same identifier and content) and PUBREL (unchanged) are appended to the retransmit queue and nothing else is, a subscribe registers its stream under its subscription identifier at send time, fire-and-forget requests complete with Ok once written
    //@ bounds: R 1..=65535 and quota 0..=R symbolic; Maximum Packet Size absent or any u32; one earlier waiter and one earlier retransmit entry; request kinds {PUBLISH QoS 1, QoS 2, PUBREL, UNSUBSCRIBE, PINGREQ, PUBLISH QoS 0, DISCONNECT, SUBSCRIBE} one per harness, packets of 2..=10 bytes with symbolic identifier and retain bit, action id and subscription identifier arbitrary; transport accepts every write at once; all callers alive (cancellation and transport faults not covered)
    //@ funcs: Context::handle_message, Context::validate_packet_size, TxPacketStream::write
    step_msg!(step_msg_publish_q1, 1);
    step_msg!(step_msg_publish_q2, 2);
    step_msg!(step_msg_pubrel, 3);
    step_msg!(step_msg_unsubscribe, 4);
    step_msg!(step_msg_pingreq, 5);
    step_msg!(step_msg_publish_q0, 6);
    step_msg!(step_msg_disconnect, 7);
    step_msg!(step_msg_subscribe, 8);

    //@ h name=step_msg_publish_q1_cancelled props=C15,C10,C12 tier=thorough cap=small to=1200
    //@ h name=step_msg_publish_q0_cancelled props=C15,C12 tier=quick cap=small to=1200
    //@ h name=step_msg_subscribe_cancelled props=C15,C12 tier=thorough cap=small to=1200
    //@ claim: the same handle_message step when the caller has already dropped the operation's future (its response channel and stream are closed): the step still returns Ok, so run() keeps serving; refusals (Maximum Packet Size, quota) still write nothing and leave nothing behind; an accepted request is still written once and registered exactly as for a live caller, so that its late acknowledgement finds its waiter and frees the quota slot
    //@ bounds: as step_msg_*; request kinds PUBLISH QoS 1, PUBLISH QoS 0 (fire-and-forget), SUBSCRIBE
    //@ funcs: Context::handle_message, Context::validate_packet_size, TxPacketStream::write
    step_msg!(step_msg_publish_q1_cancelled, 1, true);
    step_msg!(step_msg_publish_q0_cancelled, 6, true);
    step_msg!(step_msg_subscribe_cancelled, 8, true);

    //@ h name=step_msg_publish_q1_pending props=C16,C01,C10 tier=off cap=small to=1200 mem=40
    //@ h name=step_msg_subscribe_pending props=C16,C01 tier=off cap=small to=1200 mem=40
    //@ h name=step_msg_publish_q0_pending props=C16,C01 tier=thorough cap=small to=1200
    //@ claim: the same handle_message step against a transport that first answers Pending: the step returns Pending only because the transport did (whose waker is then registered), nothing has reached the wire at that point, and the next poll completes it with exactly the same result as an undelayed step: the packet on the wire exactly once and whole, one quota slot, one waiter, one retransmit entry
    //@ bounds: as step_msg_*; one Pending answer, then every write accepted at once
    //@ funcs: Context::handle_message, TxPacketStream::write
    step_msg!(step_msg_publish_q1_pending, 1, false, 1);
    step_msg!(step_msg_subscribe_pending, 8, false, 1);
    step_msg!(step_msg_publish_q0_pending, 6, false, 1);

    //@ h name=step_msg_publish_q1_wrerr props=C04,C13 tier=quick cap=small to=1200
    //@ h name=step_msg_disconnect_wrerr props=C04,C13 tier=thorough cap=small to=1200
    //@ claim: the same handle_message step against a transport whose write fails: no panic; a refused request is still answered locally (Ok), anything that reaches the transport ends the step with MqttError::SocketClosed
    //@ bounds: as step_msg_*; every write fails with BrokenPipe
    //@ funcs: Context::handle_message, TxPacketStream::write, From<io::Error> for MqttError
    step_msg!(step_msg_publish_q1_wrerr, 1, false, 2);
    step_msg!(step_msg_disconnect_wrerr, 7, false, 2);

    // ------------------------------------------------------------------ probes: handle_packet
    fn fresh_state(r: u16, q: u16) -> (Connection, Session) {
        (
            Connection { disconnection_timestamp: None, session_expiry_interval: 0, remote_receive_maximum: r, remote_max_packet_size: None, send_quota: q },
            Session { awaiting_ack: VecDeque::new(), subscriptions: VecDeque::new(), retrasmit_queue: VecDeque::new() },
        )
    }

    //@ h name=probe_pkt_pubrel props=C08 tier=off cap=small to=1200 mem=14
    //@ claim: experiment
    #[kani::proof]
    #[kani::unwind(8)]
    pub(crate) fn probe_pkt_pubrel() {
        let mut cx = task_cx();
        let mut tx = TxPacketStream::from(VecTx::new());
        let (mut connection, mut session) = fresh_state(10, 5);
        let id: u16 = kani::any();
        kani::assume(id != 0);
        let pkt = RxPacket::Pubrel(ack_rx(id));
        {
            let mut f = core::pin::pin!(CtxV::handle_packet(&mut tx, &mut connection, &mut session, pkt));
            match core::future::Future::poll(f.as_mut(), &mut cx) {
                core::task::Poll::Ready(Ok(())) => {}
                _ => panic!("step must complete"),
            }
        }
        assert!(out_n() == 4 && out(0) == 0x70 && out(1) == 2 && out(2) == (id >> 8) as u8 && out(3) == id as u8, "PUBCOMP with the PUBREL's identifier");
        kani::cover!(id == 0x0100, "id 256");
        core::mem::forget(session);
    }

    //@ h name=probe_pkt_puback_empty props=C10 tier=off cap=small to=1200 mem=14
    //@ claim: experiment
    #[kani::proof]
    #[kani::unwind(8)]
    pub(crate) fn probe_pkt_puback_empty() {
        let mut cx = task_cx();
        let mut tx = TxPacketStream::from(VecTx::new());
        let r: u16 = kani::any();
        let q: u16 = kani::any();
        kani::assume(r >= 1 && q <= r);
        let (mut connection, mut session) = fresh_state(r, q);
        let pkt = RxPacket::Puback(ack_rx(7));
        {
            let mut f = core::pin::pin!(CtxV::handle_packet(&mut tx, &mut connection, &mut session, pkt));
            match core::future::Future::poll(f.as_mut(), &mut cx) {
                core::task::Poll::Ready(Ok(())) => {}
                _ => panic!("step must complete"),
            }
        }
        assert!(connection.send_quota == if q < r { q + 1 } else { r });
        kani::cover!(q == r, "full");
        core::mem::forget(session);
    }

    //@ h name=probe_pkt_disconnect props=C13 tier=off cap=small to=1200 mem=14
    //@ claim: experiment
    #[kani::proof]
    #[kani::unwind(8)]
    pub(crate) fn probe_pkt_disconnect() {
        let mut cx = task_cx();
        let mut tx = TxPacketStream::from(VecTx::new());
        let (mut connection, mut session) = fresh_state(10, 5);
        let normal: bool = kani::any();
        let pkt = RxPacket::Disconnect(DisconnectRx {
            reason: if normal { DisconnectReason::Success } else { DisconnectReason::ServerBusy },
            session_expiry_interval: SessionExpiryInterval::default(),
            reason_string: None,
            server_reference: None,
            user_property: UserProperties::new(),
        });
        let res = {
            let mut f = core::pin::pin!(CtxV::handle_packet(&mut tx, &mut connection, &mut session, pkt));
            match core::future::Future::poll(f.as_mut(), &mut cx) {
                core::task::Poll::Ready(x) => x,
                _ => panic!("step must complete"),
            }
        };
        assert!(res.is_ok() == normal);
        kani::cover!(normal, "normal");
        core::mem::forget(res);
        core::mem::forget(session);
    }

    //@ h name=probe_pkt_pubrel_c props=C08 tier=off cap=heap to=900 mem=20
    //@ claim: experiment
    #[kani::proof]
    #[kani::unwind(5)]
    pub(crate) fn probe_pkt_pubrel_c() {
        let mut cx = task_cx();
        let mut tx = TxPacketStream::from(VecTx::new());
        let (mut connection, mut session) = fresh_state(10, 5);
        let id: u16 = 0x0102;
        let pkt = RxPacket::Pubrel(ack_rx(id));
        {
            let mut f = core::pin::pin!(CtxV::handle_packet(&mut tx, &mut connection, &mut session, pkt));
            match core::future::Future::poll(f.as_mut(), &mut cx) {
                core::task::Poll::Ready(Ok(())) => {}
                _ => panic!("step must complete"),
            }
        }
        assert!(out_n() == 4 && out(0) == 0x70 && out(1) == 2 && out(2) == (id >> 8) as u8 && out(3) == id as u8, "PUBCOMP with the PUBREL's identifier");
        kani::cover!(out_n() == 4, "four");
        core::mem::forget(session);
    }

    //@ h name=probe_ack_direct props=C08 tier=off cap=small to=1200 mem=14
    //@ claim: experiment
    #[kani::proof]
    #[kani::unwind(8)]
    pub(crate) fn probe_ack_direct() {
        let mut cx = task_cx();
        let mut tx = TxPacketStream::from(VecTx::new());
        let id: u16 = kani::any();
        kani::assume(id != 0);
        {
            let mut f = core::pin::pin!(CtxV::ack::<PubcompReason>(&mut tx, nz16(id)));
            match core::future::Future::poll(f.as_mut(), &mut cx) {
                core::task::Poll::Ready(Ok(())) => {}
                _ => panic!("step must complete"),
            }
        }
        assert!(out_n() == 4 && out(0) == 0x70 && out(1) == 2 && out(2) == (id >> 8) as u8 && out(3) == id as u8, "PUBCOMP with the PUBREL's identifier");
        kani::cover!(id == 0x0100, "id 256");
    }

    async fn outer_ack(tx: &mut TxPacketStream<VecTx>, id: u16) -> Result<(), MqttError> {
        CtxV::ack::<PubcompReason>(tx, nz16(id)).await?;
        Ok(())
    }
    pub(crate) async fn write_stub<T: AsyncWrite + Unpin>(_this: &mut TxPacketStream<T>, packet: &[u8]) -> Result<(), std::io::Error> {
        let mut i = 0;
        while i < packet.len() {
            let k = OUT_N.load(Ordering::Relaxed);
            assert!(k < 16, "verif bound: mock writer capacity");
            OUT[k].store(packet[i], Ordering::Relaxed);
            OUT_N.store(k + 1, Ordering::Relaxed);
            i += 1;
        }
        Ok(())
    }
    //@ h name=probe_ack_nested props=C08 tier=off cap=heap to=900 mem=20
    //@ claim: experiment
    #[kani::proof]
    #[kani::unwind(8)]
    pub(crate) fn probe_ack_nested() {
        let mut cx = task_cx();
        let mut tx = TxPacketStream::from(VecTx::new());
        let id: u16 = kani::any();
        kani::assume(id != 0);
        {
            let mut f = core::pin::pin!(outer_ack(&mut tx, id));
            match core::future::Future::poll(f.as_mut(), &mut cx) {
                core::task::Poll::Ready(Ok(())) => {}
                _ => panic!("step must complete"),
            }
        }
        assert!(out_n() == 4 && out(0) == 0x70 && out(1) == 2 && out(2) == (id >> 8) as u8 && out(3) == id as u8, "PUBCOMP with the PUBREL's identifier");
        kani::cover!(id == 0x0100, "id 256");
    }

    async fn d3(tx: &mut TxPacketStream<VecTx>, id: u16) -> Result<(), MqttError> {
        let b = [0x70u8, 2, (id >> 8) as u8, id as u8];
        tx.write(&b).await?;
        Ok(())
    }
    async fn d4(tx: &mut TxPacketStream<VecTx>, id: u16) -> Result<(), MqttError> {
        d3(tx, id).await?;
        Ok(())
    }
    async fn d5(tx: &mut TxPacketStream<VecTx>, id: u16) -> Result<(), MqttError> {
        d4(tx, id).await?;
        Ok(())
    }
    macro_rules! probe_depth {
        ($name:ident, $f:ident) => {
            #[kani::proof]
            #[kani::unwind(8)]
            pub(crate) fn $name() {
                let mut cx = task_cx();
                let mut tx = TxPacketStream::from(VecTx::new());
                let id: u16 = kani::any();
                kani::assume(id != 0);
                {
                    let mut f = core::pin::pin!($f(&mut tx, id));
                    match core::future::Future::poll(f.as_mut(), &mut cx) {
                        core::task::Poll::Ready(Ok(())) => {}
                        _ => panic!("step must complete"),
                    }
                }
                assert!(out_n() == 4 && out(0) == 0x70 && out(1) == 2 && out(2) == (id >> 8) as u8 && out(3) == id as u8, "bytes");
                kani::cover!(id == 0x0100, "id 256");
            }
        };
    }
    //@ h name=probe_d3 props=C08 tier=off cap=small to=600 mem=12
    //@ h name=probe_d4 props=C08 tier=off cap=small to=600 mem=12
    //@ h name=probe_d5 props=C08 tier=off cap=small to=600 mem=12
    //@ claim: experiment
    probe_depth!(probe_d3, d3);
    probe_depth!(probe_d4, d4);
    probe_depth!(probe_d5, d5);

    // does a value kept in a nested coroutine's state stay a constant for symex?
    async fn e_inner(tx: &mut TxPacketStream<VecTx>, n: usize) -> Result<(), MqttError> {
        let v = [n, n + 1];
        tx.write(&[1u8]).await?;
        let mut i = 0;
        while i < v[0] {
            tx.write(&[2u8]).await?;
            i += 1;
        }
        Ok(())
    }
    async fn e_outer(tx: &mut TxPacketStream<VecTx>, n: usize) -> Result<(), MqttError> {
        e_inner(tx, n).await?;
        Ok(())
    }
    //@ h name=probe_nested_const props=C08 tier=off cap=small to=600 mem=12
    //@ claim: experiment
    #[kani::proof]
    #[kani::unwind(8)]
    pub(crate) fn probe_nested_const() {
        let mut cx = task_cx();
        let mut tx = TxPacketStream::from(VecTx::new());
        {
            let mut f = core::pin::pin!(e_outer(&mut tx, 2));
            match core::future::Future::poll(f.as_mut(), &mut cx) {
                core::task::Poll::Ready(Ok(())) => {}
                _ => panic!("step must complete"),
            }
        }
        assert!(out_n() == 3);
        kani::cover!(out_n() == 3, "three");
    }

    //@ h name=probe_top_const props=C08 tier=off cap=small to=600 mem=12
    //@ claim: experiment
    #[kani::proof]
    #[kani::unwind(8)]
    pub(crate) fn probe_top_const() {
        let mut cx = task_cx();
        let mut tx = TxPacketStream::from(VecTx::new());
        {
            let mut f = core::pin::pin!(e_inner(&mut tx, 2));
            match core::future::Future::poll(f.as_mut(), &mut cx) {
                core::task::Poll::Ready(Ok(())) => {}
                _ => panic!("step must complete"),
            }
        }
        assert!(out_n() == 3);
        kani::cover!(out_n() == 3, "three");
    }

    // ------------------------------------------------------------------ run(): the resume prefix
    /// select!'s random polling order: any order
    pub(crate) fn shuffle_stub<T>(slice: &mut [T]) {
        if slice.len() == 2 && kani::any() {
            slice.swap(0, 1);
        }
    }

    //@ h name=run_resume props=C17,C13,C16 tier=off cap=small to=1800 mem=30
    //@ claim: experiment: run() on a context that recorded a disconnection: an unexpired session re-sends the stored packet before anything else and keeps the waiter pending; an expired one sends nothing and fails the abandoned operation (its sender is dropped); run() then stays Pending while neither the server nor a caller does anything
    //@ bounds: one stored PUBLISH of 4 bytes with its waiter; expiry interval and elapsed time symbolic (clock stub); reader always Pending, message queue empty with a live handle
    //@ funcs: Context::run, Context::is_reconnect, Context::session_expired, Context::reset_session, Context::retransmit
    #[kani::proof]
    #[kani::unwind(4)]
    #[kani::stub(std::time::SystemTime::elapsed, elapsed_stub)]
    #[kani::stub(futures_util::__private::async_await::shuffle, shuffle_stub)]
    pub(crate) fn run_resume() {
        let mut cx = task_cx();
        let interval: u32 = kani::any();
        let secs: u64 = kani::any();
        ELAPSED_SECS.store(secs, Ordering::Relaxed);
        ELAPSED_NANOS.store(0, Ordering::Relaxed);
        let (sender, receiver) = mpsc::unbounded::<ContextMessage>();
        let (s0, mut rcv0) = oneshot::channel::<Result<RxPacket, MqttError>>();
        static STORED: [u8; 4] = [0x3a, 2, 0, 7];
        let mut session = Session { awaiting_ack: VecDeque::new(), subscriptions: VecDeque::new(), retrasmit_queue: VecDeque::new() };
        session.awaiting_ack.push_back((0x0400_0700, s0));
        session.retrasmit_queue.push_back((0x0400_0700, Bytes::from_static(&STORED)));
        let mut ctx: CtxV = Context {
            rx: Some(RxPacketStream::from(NoRx)),
            tx: Some(TxPacketStream::from(VecTx::new())),
            message_queue: receiver,
            session,
            connection: Connection { disconnection_timestamp: Some(std::time::UNIX_EPOCH), session_expiry_interval: interval, remote_receive_maximum: 10, remote_max_packet_size: None, send_quota: 9 },
        };
        {
            let mut f = core::pin::pin!(ctx.run());
            match core::future::Future::poll(f.as_mut(), &mut cx) {
                core::task::Poll::Pending => {}
                _ => panic!("run() does not return while nothing has happened"),
            }
            core::mem::forget(f);
        }
        let expired = interval == 0 || (interval != u32::MAX && secs > interval as u64);
        let alive = interval == u32::MAX || (interval != 0 && secs < interval as u64);
        if expired {
            assert!(out_n() == 0, "expired session: nothing is re-sent");
            assert!(matches!(rcv0.try_recv(), Err(_)), "expired session: the abandoned operation fails instead of hanging");
        }
        if alive {
            assert!(out_n() == 4 && out(0) == 0x3a && out(1) == 2 && out(2) == 0 && out(3) == 7, "live session: the stored PUBLISH is re-sent, DUP=1, same identifier");
            assert!(matches!(rcv0.try_recv(), Ok(None)), "live session: the original operation keeps waiting for its acknowledgement");
        }
        kani::cover!(expired && interval != 0, "interval elapsed");
        kani::cover!(alive && interval != u32::MAX, "within a finite interval");
        core::mem::forget(ctx);
        core::mem::forget(sender);
        core::mem::forget(rcv0);
    }

    //@ h name=probe_ack_nested_stub props=C08 tier=off cap=small to=900 mem=20
    //@ claim: experiment
    #[kani::proof]
    #[kani::unwind(8)]
    #[kani::stub(crate::codec::ack::AckTxBuilder::build, crate::codec::ack::verif_in_ack::build_stub)]
    #[kani::stub(crate::codec::ack::AckTx::property_len, crate::codec::ack::verif_in_ack::property_len_stub)]
    #[kani::stub(crate::codec::ack::AckTx::remaining_len, crate::codec::ack::verif_in_ack::remaining_len_stub)]
    pub(crate) fn probe_ack_nested_stub() {
        let mut cx = task_cx();
        let mut tx = TxPacketStream::from(VecTx::new());
        let id: u16 = kani::any();
        kani::assume(id != 0);
        {
            let mut f = core::pin::pin!(outer_ack(&mut tx, id));
            match core::future::Future::poll(f.as_mut(), &mut cx) {
                core::task::Poll::Ready(Ok(())) => {}
                _ => panic!("step must complete"),
            }
        }
        assert!(out_n() == 4 && out(0) == 0x70 && out(1) == 2 && out(2) == (id >> 8) as u8 && out(3) == id as u8, "PUBCOMP with the PUBREL's identifier");
        kani::cover!(id == 0x0100, "id 256");
    }
}
