// Included at the end of src/client/stream.rs (scratch copy only): the hand-written Stream adapter.
#[cfg(kani)]
mod verif_in_stream {
    use super::*;
    use crate::codec::PublishRx;
    use crate::core::base_types::{NonZero, Payload, QoS, UTF8String};
    use crate::core::collections::UserProperties;
    use crate::core::properties::*;
    use bytes::Bytes;
    use core::future::Future;

    fn task_cx() -> Context<'static> {
        let w: &'static std::task::Waker = Box::leak(Box::new(futures::task::noop_waker()));
        Context::from_waker(w)
    }

    /// built the way the library builds it (SubscribeRsp::stream), so that the harness keeps
    /// compiling when SubscribeStream grows private state
    fn new_stream(rx: mpsc::UnboundedReceiver<RxPacket>) -> SubscribeStream {
        let rsp = crate::client::rsp::SubscribeRsp {
            packet: crate::codec::SubackRx { packet_identifier: NonZero::try_from(1u16).unwrap(), reason_string: None, user_property: UserProperties::new(), payload: Vec::new() },
            receiver: rx,
        };
        rsp.stream()
    }

    static TOPIC: [u8; 3] = *b"a/b";
    fn publish(tag: u8, retain: bool, pid: u16, mei: u32) -> RxPacket {
        let body: &'static [u8; 2] = Box::leak(Box::new([tag, 0xad]));
        RxPacket::Publish(PublishRx {
            dup: false,
            retain,
            qos: QoS::AtLeastOnce,
            topic_name: UTF8String(Bytes::from_static(&TOPIC)),
            packet_identifier: Some(NonZero::try_from(pid).unwrap()),
            payload_format_indicator: None,
            topic_alias: None,
            message_expiry_interval: Some(MessageExpiryInterval(mei)),
            subscription_identifier: None,
            correlation_data: None,
            response_topic: None,
            content_type: None,
            user_property: UserProperties::new(),
            payload: Payload(Bytes::from_static(&body[..])),
        })
    }

    //@ h name=stream_drain_then_end props=C14,C16,C07 tier=quick cap=small to=900
    //@ claim: SubscribeStream::poll_next: while the context is alive and nothing is queued it returns Pending after registering its waker with the channel and consumes nothing; queued messages are yielded one per poll, in arrival order, with retain flag, packet identifier, message expiry, topic and payload unchanged; once the context (the sender) is gone it yields the messages it had already received and then ends with None instead of staying Pending
    //@ bounds: two queued messages with symbolic retain flag, packet identifier, message expiry interval and first payload byte; sender dropped after the first message has been taken; channel = /verif/models/futures-channel
    //@ funcs: SubscribeStream::poll_next, PublishData::from and accessors
    #[kani::proof]
    #[kani::unwind(4)]
    pub(crate) fn stream_drain_then_end() {
        let mut cx = task_cx();
        let (tx, rx) = mpsc::unbounded::<RxPacket>();
        let mut stream = new_stream(rx);
        // nothing queued, context alive
        match Pin::new(&mut stream).poll_next(&mut cx) {
            Poll::Pending => {}
            _ => panic!("nothing to yield while the context is alive and silent"),
        }
        let (t1, t2): (u8, u8) = (kani::any(), kani::any());
        let (r1, r2): (bool, bool) = (kani::any(), kani::any());
        let (p1, p2): (u16, u16) = (kani::any(), kani::any());
        kani::assume(p1 != 0 && p2 != 0);
        let (m1, m2): (u32, u32) = (kani::any(), kani::any());
        assert!(tx.unbounded_send(publish(t1, r1, p1, m1)).is_ok());
        assert!(tx.unbounded_send(publish(t2, r2, p2, m2)).is_ok());
        match Pin::new(&mut stream).poll_next(&mut cx) {
            Poll::Ready(Some(d)) => {
                assert!(d.retain() == r1 && !d.dup() && d.qos() as u8 == 1, "first message first, flags unchanged");
                assert!(d.payload().len() == 2 && d.payload()[0] == t1 && d.payload()[1] == 0xad, "payload unchanged");
                assert!(d.message_expiry_interval() == Some(std::time::Duration::from_secs(m1 as u64)), "properties unchanged");
                core::mem::forget(d);
            }
            _ => panic!("a queued message is yielded at once"),
        }
        // the context goes away with one message still queued
        drop(tx);
        match Pin::new(&mut stream).poll_next(&mut cx) {
            Poll::Ready(Some(d)) => {
                assert!(d.retain() == r2 && d.payload()[0] == t2, "the message received before the context went away is still yielded");
                assert!(d.message_expiry_interval() == Some(std::time::Duration::from_secs(m2 as u64)), "properties unchanged");
                core::mem::forget(d);
            }
            _ => panic!("messages already received survive the context"),
        }
        match Pin::new(&mut stream).poll_next(&mut cx) {
            Poll::Ready(None) => {}
            _ => panic!("the stream ends once the context is gone and everything was yielded; it does not hang"),
        }
        kani::cover!(r1 && !r2, "different flags in the two messages");
        kani::cover!(t1 != t2, "different payloads");
        core::mem::forget(stream);
    }

    //@ h name=ctx_gone_mapping props=C14 tier=quick cap=small to=600
    //@ claim: what a caller sees once the context is gone: a request that cannot be queued any more (the context's receiver is gone: TrySendError) and an operation whose response channel was dropped with the context (oneshot::Canceled) both surface as MqttError::ContextExited
    //@ bounds: channel = /verif/models/futures-channel; one message, one waiter
    //@ funcs: From<TrySendError<T>> for MqttError, From<Canceled> for MqttError
    #[kani::proof]
    #[kani::unwind(4)]
    pub(crate) fn ctx_gone_mapping() {
        use crate::client::error::MqttError;
        use futures::channel::oneshot;
        let mut cx = task_cx();
        // the context's message queue is gone
        let (tx, rx) = mpsc::unbounded::<u8>();
        drop(rx);
        match tx.unbounded_send(kani::any()) {
            Err(e) => match MqttError::from(e) {
                MqttError::ContextExited(_) => {}
                _ => panic!("a request that cannot reach the context fails with ContextExited"),
            },
            Ok(()) => panic!("sending to a dropped context fails"),
        }
        // the context dropped the waiter of a pending operation
        let (s, mut r) = oneshot::channel::<u8>();
        match Pin::new(&mut r).poll(&mut cx) {
            Poll::Pending => {}
            _ => panic!("pending while the context holds the sender"),
        }
        drop(s);
        match Pin::new(&mut r).poll(&mut cx) {
            Poll::Ready(Err(c)) => match MqttError::from(c) {
                MqttError::ContextExited(_) => {}
                _ => panic!("an operation abandoned by the context fails with ContextExited"),
            },
            _ => panic!("a pending operation completes (with an error) once the context is gone; it does not hang"),
        }
        kani::cover!(true, "both paths exercised");
        core::mem::forget(tx);
        core::mem::forget(r);
    }

    //@ h name=stream_long_run props=C14,C16 tier=off cap=small to=2400 mem=36
    //@ claim: over a long uninterrupted run of deliveries a SubscribeStream never answers Pending while a message is queued (it has no licence to return Pending without a registered waker), yields each message on the very next poll, and ends with None once the context is gone
    //@ bounds: 40 rounds of (one message queued, one poll), payload tag = round, then the sender is dropped and one more poll; queue depth 1 (a 40-deep backlog drained in one go exceeds 12 GB: stream_drain_40 was tried)
    //@ funcs: SubscribeStream::poll_next, SubscribeRsp::stream, PublishData::from
    #[kani::proof]
    #[kani::unwind(42)]
    pub(crate) fn stream_long_run() {
        let mut cx = task_cx();
        let (tx, rx) = mpsc::unbounded::<RxPacket>();
        let mut stream = new_stream(rx);
        let mut k = 0u8;
        while k < 40 {
            assert!(tx.unbounded_send(publish(k, false, 1, 0)).is_ok());
            match Pin::new(&mut stream).poll_next(&mut cx) {
                Poll::Ready(Some(d)) => {
                    assert!(d.payload()[0] == k, "the message just queued");
                    core::mem::forget(d);
                }
                Poll::Ready(None) => panic!("the stream does not end while the context is alive"),
                Poll::Pending => panic!("a queued message is yielded on the next poll, however many were yielded before"),
            }
            k += 1;
        }
        drop(tx);
        match Pin::new(&mut stream).poll_next(&mut cx) {
            Poll::Ready(None) => {}
            _ => panic!("once the context is gone the stream ends; it does not hang"),
        }
        kani::cover!(k == 40, "forty deliveries in a row");
        core::mem::forget(stream);
    }
}
