// Included at the end of src/client/context.rs (scratch copy only): one `handle_packet` step from
// an arbitrary valid pre-state, for the packet kinds whose handling does not write to the
// transport (acknowledgements of the client's own requests, server DISCONNECT).
#[cfg(kani)]
mod verif_in_ctx_pkt {
    use super::*;
    use crate::core::collections::UserProperties;
    use crate::core::properties::*;
    use core::sync::atomic::{AtomicU8, AtomicUsize, Ordering};

    pub(crate) struct NoRx;
    impl AsyncRead for NoRx {
        fn poll_read(self: core::pin::Pin<&mut Self>, _cx: &mut core::task::Context<'_>, _buf: &mut [u8]) -> core::task::Poll<std::io::Result<usize>> {
            core::task::Poll::Pending
        }
    }
    /// Transport mock recording into statics; accepts every write at once.
    static OUT: [AtomicU8; 16] = [const { AtomicU8::new(0) }; 16];
    static OUT_N: AtomicUsize = AtomicUsize::new(0);
    pub(crate) fn out_n() -> usize {
        OUT_N.load(Ordering::Relaxed)
    }
    pub(crate) fn out(i: usize) -> u8 {
        OUT[i].load(Ordering::Relaxed)
    }
    pub(crate) struct RecTx;
    impl RecTx {
        pub(crate) fn new() -> RecTx {
            OUT_N.store(0, Ordering::Relaxed);
            RecTx
        }
    }
    impl AsyncWrite for RecTx {
        fn poll_write(self: core::pin::Pin<&mut Self>, _cx: &mut core::task::Context<'_>, buf: &[u8]) -> core::task::Poll<std::io::Result<usize>> {
            let mut i = 0;
            while i < buf.len() {
                let k = OUT_N.load(Ordering::Relaxed);
                assert!(k < 16, "verif bound: mock writer capacity");
                OUT[k].store(buf[i], Ordering::Relaxed);
                OUT_N.store(k + 1, Ordering::Relaxed);
                i += 1;
            }
            core::task::Poll::Ready(Ok(buf.len()))
        }
        fn poll_flush(self: core::pin::Pin<&mut Self>, _cx: &mut core::task::Context<'_>) -> core::task::Poll<std::io::Result<()>> {
            core::task::Poll::Ready(Ok(()))
        }
        fn poll_close(self: core::pin::Pin<&mut Self>, _cx: &mut core::task::Context<'_>) -> core::task::Poll<std::io::Result<()>> {
            core::task::Poll::Ready(Ok(()))
        }
    }
    pub(crate) type CtxR = Context<NoRx, RecTx>;

    pub(crate) fn task_cx() -> core::task::Context<'static> {
        let w: &'static core::task::Waker = Box::leak(Box::new(futures::task::noop_waker()));
        core::task::Context::from_waker(w)
    }
    pub(crate) fn nz16(v: u16) -> NonZero<u16> {
        NonZero::try_from(v).unwrap()
    }
    fn ack_rx<R: Default>(id: u16, reason: R) -> AckRx<R> {
        AckRx { packet_identifier: nz16(id), reason, reason_string: None, user_property: UserProperties::new() }
    }
    /// action id as both sides compute it (established by `action_id_agree`)
    fn aid(ptype: u8, id: u16) -> usize {
        ((ptype as usize) << 24) | ((id as usize) << 8)
    }

    const PID: u16 = 0x0102;
    const OID: u16 = 0x0201;
    pub(crate) const PUBACK: u8 = 4;
    pub(crate) const PUBREC: u8 = 5;
    pub(crate) const PUBCOMP: u8 = 7;
    pub(crate) const SUBACK: u8 = 9;
    pub(crate) const UNSUBACK: u8 = 11;
    pub(crate) const PINGRESP: u8 = 13;

    /// `scen`: where the addressed waiter sits and whether its caller is still there.
    ///   0 = no waiter for this acknowledgement (only an unrelated one)
    ///   1 = addressed waiter second in line, behind an unrelated one, caller alive
    ///   2 = addressed waiter first in line, an unrelated one behind it, caller alive
    ///   3 = addressed waiter second in line, its caller has dropped the operation (cancelled)
    /// `rscen`: retransmit queue. 0 = [unrelated]; 1 = [unrelated, addressed]; 2 = [addressed, unrelated]
    fn step_ack_body(ptype: u8, reason: u8, scen: u8, rscen: u8) {
        step_ack_body_ids(ptype, reason, scen, rscen, PID, OID)
    }
    fn step_ack_body_ids(ptype: u8, reason: u8, scen: u8, rscen: u8, pid_c: u16, oid_c: u16) {
        let mut cx = task_cx();
        let mut tx = TxPacketStream::from(RecTx::new());
        let r: u16 = kani::any();
        let q: u16 = kani::any();
        kani::assume(r >= 1 && q <= r);
        let mps: Option<u32> = kani::any();
        let sei: u32 = kani::any();
        let mut connection = Connection { disconnection_timestamp: None, session_expiry_interval: sei, remote_receive_maximum: r, remote_max_packet_size: mps, send_quota: q };
        let mut session = Session { awaiting_ack: VecDeque::new(), subscriptions: VecDeque::new(), retrasmit_queue: VecDeque::new() };

        // Identifiers are concrete (the queue positions must be decided by constant propagation:
        // a symbolic position makes VecDeque::remove shift symbolic ranges, > 12 GB); that request
        // and acknowledgement agree on the action id exactly for equal kind and identifier is
        // decided for ALL identifiers by `action_id_agree`.
        let pid: u16 = pid_c;
        // an unrelated outstanding operation: same kind, different identifier
        let oid: u16 = oid_c;
        let other_type = if ptype == PINGRESP { SUBACK } else { ptype };
        let a_other = aid(other_type, oid);
        let a_this = if ptype == PINGRESP { aid(PINGRESP, 0) } else { aid(ptype, pid) };

        let (s0, mut rcv_other) = oneshot::channel::<Result<RxPacket, MqttError>>();
        let (s1, mut rcv_this) = oneshot::channel::<Result<RxPacket, MqttError>>();
        match scen {
            0 => {
                session.awaiting_ack.push_back((a_other, s0));
                core::mem::forget(s1);
            }
            1 | 3 => {
                session.awaiting_ack.push_back((a_other, s0));
                session.awaiting_ack.push_back((a_this, s1));
            }
            _ => {
                session.awaiting_ack.push_back((a_this, s1));
                session.awaiting_ack.push_back((a_other, s0));
            }
        }
        if scen == 3 {
            rcv_this.close(); // what dropping the operation's future does to its receiver
        }
        static STORED_OTHER: [u8; 4] = [0x3a, 2, 0, 9];
        static STORED_THIS: [u8; 4] = [0x3a, 2, 0, 8];
        // what the retransmit queue holds for this acknowledgement: the PUBLISH (waiting for
        // PUBACK / PUBREC) or the PUBREL (waiting for PUBCOMP)
        let publish_related = ptype == PUBACK || ptype == PUBREC || ptype == PUBCOMP;
        let ra_other = if publish_related { a_other } else { aid(PUBACK, oid) };
        let ra_this = if publish_related { a_this } else { aid(PUBACK, pid) };
        match rscen {
            0 => session.retrasmit_queue.push_back((ra_other, Bytes::from_static(&STORED_OTHER))),
            1 => {
                session.retrasmit_queue.push_back((ra_other, Bytes::from_static(&STORED_OTHER)));
                session.retrasmit_queue.push_back((ra_this, Bytes::from_static(&STORED_THIS)));
            }
            _ => {
                session.retrasmit_queue.push_back((ra_this, Bytes::from_static(&STORED_THIS)));
                session.retrasmit_queue.push_back((ra_other, Bytes::from_static(&STORED_OTHER)));
            }
        }

        let pkt = match ptype {
            PUBACK => RxPacket::Puback(ack_rx(pid, PubackReason::try_from(reason).unwrap())),
            PUBREC => RxPacket::Pubrec(ack_rx(pid, PubrecReason::try_from(reason).unwrap())),
            PUBCOMP => RxPacket::Pubcomp(ack_rx(pid, PubcompReason::try_from(reason).unwrap())),
            SUBACK => RxPacket::Suback(SubackRx { packet_identifier: nz16(pid), reason_string: None, user_property: UserProperties::new(), payload: Vec::new() }),
            UNSUBACK => RxPacket::Unsuback(UnsubackRx { packet_identifier: nz16(pid), reason_string: None, user_property: UserProperties::new(), payload: Vec::new() }),
            _ => RxPacket::Pingresp(PingrespRx {}),
        };
        let res = {
            let mut f = core::pin::pin!(CtxR::handle_packet(&mut tx, &mut connection, &mut session, pkt));
            match core::future::Future::poll(f.as_mut(), &mut cx) {
                core::task::Poll::Ready(x) => x,
                core::task::Poll::Pending => panic!("an acknowledgement is handled without waiting for anything"),
            }
        };
        assert!(res.is_ok(), "an acknowledgement never ends run(): not an unknown one, and not one whose caller has cancelled the operation");
        assert!(out_n() == 0, "handling an acknowledgement writes nothing");
        assert!(connection.remote_receive_maximum == r && connection.remote_max_packet_size == mps && connection.session_expiry_interval == sei && connection.disconnection_timestamp.is_none(), "the connection parameters are not touched");
        assert!(session.subscriptions.is_empty(), "no stream registration appears");

        // ---- C05 / C15: the waiter queue
        match rcv_other.try_recv() {
            Ok(None) => {}
            _ => panic!("an operation whose acknowledgement has not arrived stays pending"),
        }
        match scen {
            0 => {
                assert!(session.awaiting_ack.len() == 1 && session.awaiting_ack[0].0 == a_other, "an acknowledgement nobody waits for leaves the waiters alone");
            }
            _ => {
                assert!(session.awaiting_ack.len() == 1 && session.awaiting_ack[0].0 == a_other, "exactly the addressed waiter is removed, the other stays");
                let got = rcv_this.try_recv();
                if scen != 3 {
                    match &got {
                        Ok(Some(Ok(RxPacket::Puback(p)))) => assert!(ptype == PUBACK && p.packet_identifier.get() == pid && p.reason as u8 == reason, "completed with its own PUBACK"),
                        Ok(Some(Ok(RxPacket::Pubrec(p)))) => assert!(ptype == PUBREC && p.packet_identifier.get() == pid && p.reason as u8 == reason, "completed with its own PUBREC"),
                        Ok(Some(Ok(RxPacket::Pubcomp(p)))) => assert!(ptype == PUBCOMP && p.packet_identifier.get() == pid && p.reason as u8 == reason, "completed with its own PUBCOMP"),
                        Ok(Some(Ok(RxPacket::Suback(p)))) => assert!(ptype == SUBACK && p.packet_identifier.get() == pid, "completed with its own SUBACK"),
                        Ok(Some(Ok(RxPacket::Unsuback(p)))) => assert!(ptype == UNSUBACK && p.packet_identifier.get() == pid, "completed with its own UNSUBACK"),
                        Ok(Some(Ok(RxPacket::Pingresp(_)))) => assert!(ptype == PINGRESP, "completed with a PINGRESP"),
                        _ => panic!("the addressed operation completes with the acknowledgement that arrived"),
                    }
                }
                core::mem::forget(got);
            }
        }

        // ---- C10: the send quota
        let frees_slot = ptype == PUBACK || ptype == PUBCOMP || (ptype == PUBREC && reason >= 0x80);
        let had_outstanding = scen != 0 || rscen != 0;
        assert!(connection.send_quota <= r, "the quota never exceeds Receive Maximum");
        if !publish_related || (ptype == PUBREC && reason < 0x80) {
            assert!(connection.send_quota == q, "only a completed QoS>0 publish frees a slot");
        } else if frees_slot && had_outstanding {
            assert!(connection.send_quota == if q < r { q + 1 } else { r }, "a completion (PUBACK, PUBCOMP, PUBREC >= 0x80) frees exactly one slot");
        } else {
            assert!(connection.send_quota == q || connection.send_quota == if q < r { q + 1 } else { r }, "at most one slot is freed");
        }

        // ---- C17: the retransmit queue
        let acks_stored = publish_related; // PUBACK / PUBREC end the PUBLISH's retransmission, PUBCOMP the PUBREL's
        let rq = &session.retrasmit_queue;
        if rscen == 0 || !acks_stored {
            assert!(rq.len() == if rscen == 0 { 1 } else { 2 }, "entries that were not acknowledged stay queued for retransmission");
            assert!(rq[0].0 == if rscen == 2 { ra_this } else { ra_other }, "order kept");
        } else {
            assert!(rq.len() == 1 && rq[0].0 == ra_other && rq[0].1.len() == 4 && rq[0].1[3] == 9, "exactly the acknowledged packet leaves the retransmit queue, the other entry stays unchanged");
        }

        kani::cover!(q == r, "quota already full");
        kani::cover!(q == 0, "quota exhausted before");
        kani::cover!(q as u32 + 1 == r as u32, "one slot in use");
        core::mem::forget(res);
        core::mem::forget(session);
        core::mem::forget(rcv_other);
        core::mem::forget(rcv_this);
    }

    macro_rules! step_ack {
        ($name:ident, $ptype:expr, $reason:expr, $scen:expr, $rscen:expr) => {
            #[kani::proof]
            #[kani::unwind(6)]
            pub(crate) fn $name() {
                step_ack_body($ptype, $reason, $scen, $rscen);
            }
        };
    }
    //@ h name=step_pkt_puback_w2 props=C05,C06,C10,C17 tier=quick cap=small to=1200
    //@ h name=step_pkt_puback_w1_fail props=C05,C06,C10,C17 tier=thorough cap=small to=1200
    //@ h name=step_pkt_puback_none props=C05,C10,C15,C17 tier=off cap=small to=1200 mem=40
    //@ h name=step_pkt_puback_cancelled props=C10,C15,C17 tier=quick cap=small to=1200
    //@ h name=step_pkt_pubrec_w2 props=C05,C06,C10,C17 tier=quick cap=small to=1200
    //@ h name=step_pkt_pubrec_w1_fail props=C05,C06,C10,C17 tier=thorough cap=small to=1200
    //@ h name=step_pkt_pubrec_cancelled_fail props=C10,C15,C17 tier=thorough cap=small to=1200
    //@ h name=step_pkt_pubcomp_w2 props=C05,C06,C10,C17 tier=thorough cap=small to=1200
    //@ h name=step_pkt_pubcomp_w1_fail props=C05,C06,C10,C17 tier=thorough cap=small to=1200
    //@ h name=step_pkt_pubcomp_cancelled props=C10,C15,C17 tier=thorough cap=small to=1200
    //@ h name=step_pkt_suback_w2 props=C05,C10 tier=quick cap=small to=1200
    //@ h name=step_pkt_suback_cancelled props=C15 tier=thorough cap=small to=1200
    //@ h name=step_pkt_unsuback_w1 props=C05,C10 tier=quick cap=small to=1200
    //@ h name=step_pkt_unsuback_cancelled props=C15 tier=thorough cap=small to=1200
    //@ h name=step_pkt_pingresp_w1 props=C05,C10 tier=quick cap=small to=1200
    //@ h name=step_pkt_pingresp_none props=C05,C15 tier=thorough cap=small to=1200
    //@ claim: one Context::handle_packet step for an acknowledgement of one of the client's own requests, from every valid pre-state: the step returns Ok (an acknowledgement nobody waits for, or whose caller has dropped the operation, is absorbed and never ends run()); nothing is written; exactly the waiter registered under this acknowledgement's type and packet identifier is removed and completed with this very packet (identifier and reason code), every other waiter stays registered and pending; PUBACK, PUBCOMP and a PUBREC with reason >= 0x80 free exactly one send-quota slot (never beyond Receive Maximum), a PUBREC < 0x80 and every other acknowledgement leave the quota alone; PUBACK and PUBREC take the stored PUBLISH, PUBCOMP the stored PUBREL out of the retransmit queue, every other entry stays, in order and unchanged; Receive Maximum, Maximum Packet Size, the session expiry interval and the stream registrations are untouched
    //@ bounds: Receive Maximum 1..=65535 and quota 0..=R symbolic, Maximum Packet Size / expiry interval arbitrary; the acknowledgement's packet identifier 0x0102 and a second outstanding operation of the same kind with identifier 0x0201 (concrete: queue positions must be constants; identifier agreement for all values is action_id_agree); waiter queue of 1-2 entries and retransmit queue of 1-2 entries in the positions named by the harness (_w1 addressed waiter first, _w2 second, _none absent, _cancelled caller gone); reason code fixed per harness (0x00, or 0x80/0x92 in the _fail variants); acknowledgements without reason string / user properties (their decoding is C02)
    //@ funcs: Context::handle_packet, utils::rx_action_id, utils::linear_search_by_key
    //@ h name=step_pkt_puback_w2_r1 props=C05,C10,C17 tier=quick cap=small to=1200
    //@ h name=step_pkt_pubrec_w1_r2 props=C05,C10,C17 tier=thorough cap=small to=1200
    //@ h name=step_pkt_pubcomp_w2_r1 props=C05,C10,C17 tier=thorough cap=small to=1200
    //@ h name=step_pkt_puback_pruned props=C10,C15,C17 tier=quick cap=small to=1200 mem=30
    //@ claim: as step_pkt_*, with the waiter queue and the retransmit queue NOT aligned (the addressed waiter second in line while its stored packet is first, or the other way round; _pruned: no waiter left for the acknowledgement but its stored packet still queued): the position in one queue says nothing about the other
    //@ bounds: as step_pkt_*
    //@ funcs: Context::handle_packet, utils::rx_action_id, utils::linear_search_by_key
    step_ack!(step_pkt_puback_w2_r1, PUBACK, 0x00, 1, 2);
    step_ack!(step_pkt_pubrec_w1_r2, PUBREC, 0x00, 2, 1);
    step_ack!(step_pkt_pubcomp_w2_r1, PUBCOMP, 0x00, 1, 2);
    step_ack!(step_pkt_puback_pruned, PUBACK, 0x00, 0, 1);
    step_ack!(step_pkt_puback_w2, PUBACK, 0x00, 1, 1);
    step_ack!(step_pkt_puback_w1_fail, PUBACK, 0x80, 2, 2);
    step_ack!(step_pkt_puback_none, PUBACK, 0x00, 0, 0);
    step_ack!(step_pkt_puback_cancelled, PUBACK, 0x00, 3, 1);
    step_ack!(step_pkt_pubrec_w2, PUBREC, 0x00, 1, 1);
    step_ack!(step_pkt_pubrec_w1_fail, PUBREC, 0x80, 2, 2);
    step_ack!(step_pkt_pubrec_cancelled_fail, PUBREC, 0x97, 3, 1);
    step_ack!(step_pkt_pubcomp_w2, PUBCOMP, 0x00, 1, 1);
    step_ack!(step_pkt_pubcomp_w1_fail, PUBCOMP, 0x92, 2, 2);
    step_ack!(step_pkt_pubcomp_cancelled, PUBCOMP, 0x00, 3, 1);
    step_ack!(step_pkt_suback_w2, SUBACK, 0x00, 1, 1);
    step_ack!(step_pkt_suback_cancelled, SUBACK, 0x00, 3, 0);
    step_ack!(step_pkt_unsuback_w1, UNSUBACK, 0x00, 2, 2);
    step_ack!(step_pkt_unsuback_cancelled, UNSUBACK, 0x00, 3, 0);
    step_ack!(step_pkt_pingresp_w1, PINGRESP, 0x00, 2, 1);
    step_ack!(step_pkt_pingresp_none, PINGRESP, 0x00, 0, 0);

    macro_rules! step_ack_ids {
        ($name:ident, $ptype:expr, $reason:expr, $scen:expr, $rscen:expr, $pid:expr, $oid:expr) => {
            #[kani::proof]
            #[kani::unwind(6)]
            pub(crate) fn $name() {
                step_ack_body_ids($ptype, $reason, $scen, $rscen, $pid, $oid);
            }
        };
    }
    //@ h name=step_pkt_puback_w2_id1 props=C05,C10,C17 tier=thorough cap=small to=1200
    //@ h name=step_pkt_pubrec_w1_fail_idmax props=C05,C10,C17 tier=thorough cap=small to=1200
    //@ h name=step_pkt_suback_w2_idmax props=C05,C10 tier=thorough cap=small to=1200
    //@ claim: as step_pkt_*, at the boundary packet identifiers: the acknowledged operation carries identifier 1 (the other 0xffff) or 0xffff (the other 0x0100, same low byte as 0x0000 would have)
    //@ bounds: as step_pkt_*, identifiers (1, 0xffff) and (0xffff, 0x0100)
    //@ funcs: Context::handle_packet, utils::rx_action_id, utils::linear_search_by_key
    step_ack_ids!(step_pkt_puback_w2_id1, PUBACK, 0x00, 1, 1, 0x0001, 0xffff);
    step_ack_ids!(step_pkt_pubrec_w1_fail_idmax, PUBREC, 0x80, 2, 2, 0xffff, 0x0100);
    step_ack_ids!(step_pkt_suback_w2_idmax, SUBACK, 0x00, 1, 1, 0xffff, 0x0100);

    //@ h name=step_pkt_disconnect props=C13 tier=quick cap=small to=1200
    //@ claim: one Context::handle_packet step for a server DISCONNECT: reason 0x00 is a graceful end (Ok), every other reason ends run() with MqttError::Disconnected carrying exactly that reason and the packet's session expiry interval; nothing is written, waiters, retransmit queue and quota are left as they were
    //@ bounds: every DisconnectReason the decoder can produce (all 29 values, symbolic), any session expiry interval, no reason string / server reference / user properties; one outstanding waiter and one retransmit entry
    //@ funcs: Context::handle_packet, From<DisconnectRx> for MqttError, Disconnected::reason, Disconnected::session_expiry_interval
    #[kani::proof]
    #[kani::unwind(6)]
    pub(crate) fn step_pkt_disconnect() {
        let mut cx = task_cx();
        let mut tx = TxPacketStream::from(RecTx::new());
        let r: u16 = kani::any();
        let q: u16 = kani::any();
        kani::assume(r >= 1 && q <= r);
        let mut connection = Connection { disconnection_timestamp: None, session_expiry_interval: kani::any(), remote_receive_maximum: r, remote_max_packet_size: kani::any(), send_quota: q };
        let mut session = Session { awaiting_ack: VecDeque::new(), subscriptions: VecDeque::new(), retrasmit_queue: VecDeque::new() };
        let (s0, mut rcv0) = oneshot::channel::<Result<RxPacket, MqttError>>();
        session.awaiting_ack.push_back((aid(PUBACK, 7), s0));
        static STORED: [u8; 4] = [0x3a, 2, 0, 7];
        session.retrasmit_queue.push_back((aid(PUBACK, 7), Bytes::from_static(&STORED)));
        let code: u8 = kani::any();
        let reason = match DisconnectReason::try_from(code) {
            Ok(x) => x,
            Err(e) => {
                core::mem::forget(e);
                kani::assume(false);
                unreachable!()
            }
        };
        let sei: u32 = kani::any();
        let pkt = RxPacket::Disconnect(DisconnectRx {
            reason,
            session_expiry_interval: SessionExpiryInterval(sei),
            reason_string: None,
            server_reference: None,
            user_property: UserProperties::new(),
        });
        let res = {
            let mut f = core::pin::pin!(CtxR::handle_packet(&mut tx, &mut connection, &mut session, pkt));
            match core::future::Future::poll(f.as_mut(), &mut cx) {
                core::task::Poll::Ready(x) => x,
                core::task::Poll::Pending => panic!("a DISCONNECT is handled without waiting for anything"),
            }
        };
        match &res {
            Ok(()) => assert!(code == 0, "only reason 0x00 is a graceful disconnection"),
            Err(MqttError::Disconnected(d)) => {
                assert!(code != 0, "reason 0x00 is not an error");
                assert!(d.reason() as u8 == code, "Disconnected carries the server's reason");
                assert!(d.session_expiry_interval() == core::time::Duration::from_secs(sei as u64), "Disconnected carries the packet's properties");
            }
            Err(_) => panic!("a server DISCONNECT maps to MqttError::Disconnected"),
        }
        assert!(out_n() == 0, "nothing is written in response to a DISCONNECT");
        assert!(connection.send_quota == q && session.awaiting_ack.len() == 1 && session.retrasmit_queue.len() == 1, "session state is kept (it may be resumed)");
        assert!(matches!(rcv0.try_recv(), Ok(None)), "no operation is completed by a DISCONNECT");
        kani::cover!(code == 0, "graceful");
        kani::cover!(code == 0x04, "Disconnect with Will Message (an error for the client)");
        kani::cover!(code == 0xa2, "largest reason code");
        core::mem::forget(res);
        core::mem::forget(session);
        core::mem::forget(rcv0);
    }

    // ------------------------------------------------------------------ inbound PUBLISH
    use crate::core::base_types::{Payload, UTF8String, VarSizeInt};
    static TOPIC: [u8; 3] = *b"a/b";
    static BODY: [u8; 2] = [0xde, 0xad];
    const SID: u32 = 5;
    const SID_OTHER: u32 = 300;

    fn sub_id(v: u32) -> SubscriptionIdentifier {
        SubscriptionIdentifier(NonZero::try_from(VarSizeInt::try_from(v).unwrap()).unwrap())
    }

    /// `qos`: 0 | 1 | 2.  `sid`: 0 = the PUBLISH carries no subscription identifier, 1 = it carries
    /// SID.  `scen`: 0 = no stream registered under SID (only another one), 1 = registered second,
    /// behind another stream, alive; 2 = registered first, its SubscribeStream has been dropped
    fn step_pub_body(qos: u8, sid: u8, scen: u8) {
        let mut cx = task_cx();
        let mut tx = TxPacketStream::from(RecTx::new());
        let r: u16 = kani::any();
        let q: u16 = kani::any();
        kani::assume(r >= 1 && q <= r);
        let mut connection = Connection { disconnection_timestamp: None, session_expiry_interval: kani::any(), remote_receive_maximum: r, remote_max_packet_size: kani::any(), send_quota: q };
        let mut session = Session { awaiting_ack: VecDeque::new(), subscriptions: VecDeque::new(), retrasmit_queue: VecDeque::new() };
        let (s0, mut rcv0) = oneshot::channel::<Result<RxPacket, MqttError>>();
        session.awaiting_ack.push_back((aid(PUBACK, 7), s0));
        let (st_other, mut rs_other) = mpsc::unbounded::<RxPacket>();
        let (st_this, mut rs_this) = mpsc::unbounded::<RxPacket>();
        // single-entry registrations unless `two`: a symbolic queue position (the identifier is
        // read back from coroutine state, hence opaque) over two entries exceeds 40 GB
        let two = scen >= 10;
        let scen = scen % 10;
        match scen {
            0 => {
                session.subscriptions.push_back((SID_OTHER as usize, st_other));
                core::mem::forget(st_this);
            }
            1 => {
                if two {
                    session.subscriptions.push_back((SID_OTHER as usize, st_other));
                } else {
                    core::mem::forget(st_other);
                }
                session.subscriptions.push_back((SID as usize, st_this));
            }
            _ => {
                session.subscriptions.push_back((SID as usize, st_this));
                if two {
                    session.subscriptions.push_back((SID_OTHER as usize, st_other));
                } else {
                    core::mem::forget(st_other);
                }
                rs_this.close(); // what dropping the SubscribeStream does
            }
        }
        let dup: bool = kani::any();
        let retain: bool = kani::any();
        let pid: u16 = kani::any();
        kani::assume(pid != 0);
        let mei: u32 = kani::any();
        let publish = PublishRx {
            dup,
            retain,
            qos: match qos {
                0 => QoS::AtMostOnce,
                1 => QoS::AtLeastOnce,
                _ => QoS::ExactlyOnce,
            },
            topic_name: UTF8String(Bytes::from_static(&TOPIC)),
            packet_identifier: if qos == 0 { None } else { Some(nz16(pid)) },
            payload_format_indicator: None,
            topic_alias: None,
            message_expiry_interval: Some(MessageExpiryInterval(mei)),
            subscription_identifier: if sid == 1 { Some(sub_id(SID)) } else { None },
            correlation_data: None,
            response_topic: None,
            content_type: None,
            user_property: UserProperties::new(),
            payload: Payload(Bytes::from_static(&BODY)),
        };
        let res = {
            let mut f = core::pin::pin!(CtxR::handle_packet(&mut tx, &mut connection, &mut session, RxPacket::Publish(publish)));
            match core::future::Future::poll(f.as_mut(), &mut cx) {
                core::task::Poll::Ready(x) => x,
                core::task::Poll::Pending => panic!("the transport accepts the acknowledgement at once"),
            }
        };
        assert!(res.is_ok(), "an inbound PUBLISH never ends run(), whatever became of its stream");

        // ---- C08: the acknowledgement
        match qos {
            0 => assert!(out_n() == 0, "QoS 0: nothing is written"),
            1 => assert!(out_n() == 4 && out(0) == 0x40 && out(1) == 2 && out(2) == (pid >> 8) as u8 && out(3) == pid as u8, "QoS 1: exactly one PUBACK with the PUBLISH's packet identifier"),
            _ => assert!(out_n() == 4 && out(0) == 0x50 && out(1) == 2 && out(2) == (pid >> 8) as u8 && out(3) == pid as u8, "QoS 2: exactly one PUBREC with the PUBLISH's packet identifier"),
        }

        // ---- C07: delivery
        match rs_other.try_next() {
            Err(_) => {}
            _ => panic!("a stream registered under another subscription identifier receives nothing"),
        }
        if sid == 1 && scen == 1 {
            match rs_this.try_next() {
                Ok(Some(RxPacket::Publish(p))) => {
                    assert!(p.dup == dup && p.retain == retain && p.qos as u8 == qos, "flags and QoS unchanged");
                    assert!(p.packet_identifier.map(|x| x.get()) == if qos == 0 { None } else { Some(pid) }, "packet identifier unchanged");
                    assert!(p.topic_name.0.len() == 3 && p.topic_name.0[0] == b'a' && p.topic_name.0[2] == b'b', "topic unchanged");
                    assert!(p.payload.0.len() == 2 && p.payload.0[0] == 0xde && p.payload.0[1] == 0xad, "payload unchanged");
                    assert!(p.message_expiry_interval.map(u32::from) == Some(mei) && p.subscription_identifier.is_some(), "properties unchanged");
                    core::mem::forget(p);
                }
                _ => panic!("the message reaches the stream registered under its subscription identifier"),
            }
            match rs_this.try_next() {
                Err(_) => {}
                _ => panic!("the message is delivered exactly once"),
            }
        } else if scen != 2 {
            match rs_this.try_next() {
                Err(_) => {}
                _ => panic!("nothing is delivered to a stream the PUBLISH is not addressed to"),
            }
        }
        // registrations
        let n_other = if two || scen == 0 { 1 } else { 0 };
        match scen {
            0 => assert!(session.subscriptions.len() == 1 && session.subscriptions[0].0 == SID_OTHER as usize, "other registrations untouched"),
            1 => assert!(session.subscriptions.len() == n_other + 1 && session.subscriptions[n_other].0 == SID as usize, "registrations untouched, in order"),
            _ => {
                if sid == 1 {
                    assert!(session.subscriptions.len() == n_other, "the registration of a dropped stream is removed when a message for it arrives");
                }
                if two {
                    assert!(session.subscriptions.len() >= 1 && session.subscriptions[session.subscriptions.len() - 1].0 == SID_OTHER as usize, "the other stream stays registered when one stream is dropped");
                }
            }
        }
        // everything else
        assert!(connection.send_quota == q && connection.remote_receive_maximum == r, "an inbound PUBLISH does not touch the send quota");
        assert!(session.awaiting_ack.len() == 1 && matches!(rcv0.try_recv(), Ok(None)) && session.retrasmit_queue.is_empty(), "pending operations are not affected");
        kani::cover!(dup && retain, "DUP and RETAIN set");
        kani::cover!(pid == 0xffff, "largest packet identifier");
        core::mem::forget(res);
        core::mem::forget(session);
        core::mem::forget(rcv0);
        core::mem::forget(rs_other);
        core::mem::forget(rs_this);
    }

    macro_rules! step_pub {
        ($name:ident, $qos:expr, $sid:expr, $scen:expr) => {
            #[kani::proof]
            #[kani::unwind(6)]
            #[kani::stub(crate::codec::ack::AckTxBuilder::build, crate::codec::ack::verif_in_ack::build_stub)]
            #[kani::stub(crate::codec::ack::AckTx::property_len, crate::codec::ack::verif_in_ack::property_len_stub)]
            #[kani::stub(crate::codec::ack::AckTx::remaining_len, crate::codec::ack::verif_in_ack::remaining_len_stub)]
            pub(crate) fn $name() {
                step_pub_body($qos, $sid, $scen);
            }
        };
    }
    //@ h name=step_pub_q0_sid_alive props=C07,C08 tier=off cap=small to=1800 mem=40
    //@ h name=step_pub_q0_sid_dropped props=C07,C08,C15 tier=off cap=small to=1800 mem=40
    //@ h name=step_pub_q0_sid_unknown props=C07,C08 tier=off cap=small to=1800 mem=40
    //@ h name=step_pub_q0_nosid props=C07,C08 tier=off cap=small to=1800 mem=40
    //@ h name=step_pub_q1_nosid props=C08 tier=off cap=small to=1800 mem=40
    //@ h name=step_pub_q1_sid_alive props=C07,C08 tier=off cap=small to=1800 mem=40
    //@ h name=step_pub_q2_sid_dropped props=C07,C08,C15 tier=off cap=small to=1800 mem=40
    //@ claim: one Context::handle_packet step for an inbound PUBLISH from every valid pre-state: the step returns Ok; QoS 0 writes nothing, QoS 1 exactly one PUBACK and QoS 2 exactly one PUBREC carrying the PUBLISH's packet identifier, whether or not the message carries a subscription identifier and whatever became of its stream; the message is delivered exactly once and unchanged (flags, QoS, identifier, topic, payload, properties) to the stream registered under its subscription identifier and to no other; a dropped stream's registration is removed, other registrations stay, in order; send quota, waiters and retransmit queue are untouched
    //@ bounds: QoS, presence of the subscription identifier and the stream scenario (alive second in line / dropped first in line / unknown identifier) fixed per harness; DUP, RETAIN, packet identifier (non-zero), message expiry interval symbolic; topic "a/b", 2-byte payload, subscription identifiers 5 and 300; Receive Maximum / quota / Maximum Packet Size symbolic; transport accepts the acknowledgement at once
    //@ funcs: Context::handle_packet, Context::ack, utils::linear_search_by_key
    step_pub!(step_pub_q0_sid_alive, 0, 1, 1);
    step_pub!(step_pub_q0_sid_dropped, 0, 1, 2);
    step_pub!(step_pub_q0_sid_unknown, 0, 1, 0);
    step_pub!(step_pub_q0_nosid, 0, 0, 1);
    step_pub!(step_pub_q1_nosid, 1, 0, 1);
    step_pub!(step_pub_q1_sid_alive, 1, 1, 1);
    step_pub!(step_pub_q2_sid_dropped, 2, 1, 2);

    // ------------------------------------------------------------------ packets the server must not send now
    //@ h name=step_pkt_unexpected_auth props=C04 tier=quick cap=small to=900
    //@ h name=step_pkt_unexpected_connack props=C04 tier=quick cap=small to=900
    //@ claim: one Context::handle_packet step for a packet type that is not expected while run() is serving (a second CONNACK, an AUTH nobody asked for): the step does not panic; it either keeps serving (Ok) or returns an error; nothing is written and quota, waiters and the retransmit queue are left as they were
    //@ bounds: AUTH with every reason code the decoder can produce and no properties; CONNACK with default fields; one outstanding waiter and retransmit entry; R / quota symbolic
    //@ funcs: Context::handle_packet, utils::rx_action_id
    fn step_unexpected_body(which: u8) {
        let mut cx = task_cx();
        let mut tx = TxPacketStream::from(RecTx::new());
        let r: u16 = kani::any();
        let q: u16 = kani::any();
        kani::assume(r >= 1 && q <= r);
        let mut connection = Connection { disconnection_timestamp: None, session_expiry_interval: kani::any(), remote_receive_maximum: r, remote_max_packet_size: kani::any(), send_quota: q };
        let mut session = Session { awaiting_ack: VecDeque::new(), subscriptions: VecDeque::new(), retrasmit_queue: VecDeque::new() };
        let (s0, mut rcv0) = oneshot::channel::<Result<RxPacket, MqttError>>();
        session.awaiting_ack.push_back((aid(PUBACK, 7), s0));
        static STORED: [u8; 4] = [0x3a, 2, 0, 7];
        session.retrasmit_queue.push_back((aid(PUBACK, 7), Bytes::from_static(&STORED)));
        let pkt = if which == 0 {
            let code: u8 = kani::any();
            let reason = match AuthReason::try_from(code) {
                Ok(x) => x,
                Err(e) => {
                    core::mem::forget(e);
                    kani::assume(false);
                    unreachable!()
                }
            };
            RxPacket::Auth(AuthRx { reason, authentication_method: None, authentication_data: None, reason_string: None, user_property: UserProperties::new() })
        } else {
            RxPacket::Connack(ConnackRx {
                session_present: kani::any(),
                reason: ConnectReason::Success,
                wildcard_subscription_available: WildcardSubscriptionAvailable::default(),
                subscription_identifier_available: SubscriptionIdentifierAvailable::default(),
                shared_subscription_available: SharedSubscriptionAvailable::default(),
                maximum_qos: MaximumQoS::default(),
                retain_available: RetainAvailable::default(),
                server_keep_alive: None,
                receive_maximum: ReceiveMaximum::default(),
                topic_alias_maximum: TopicAliasMaximum::default(),
                session_expiry_interval: None,
                maximum_packet_size: None,
                authentication_data: None,
                assigned_client_identifier: None,
                reason_string: None,
                response_information: None,
                server_reference: None,
                authentication_method: None,
                user_property: UserProperties::new(),
            })
        };
        let res = {
            let mut f = core::pin::pin!(CtxR::handle_packet(&mut tx, &mut connection, &mut session, pkt));
            match core::future::Future::poll(f.as_mut(), &mut cx) {
                core::task::Poll::Ready(x) => x,
                core::task::Poll::Pending => panic!("handled without waiting for anything"),
            }
        };
        assert!(out_n() == 0, "nothing is written in response");
        assert!(connection.send_quota == q && connection.remote_receive_maximum == r, "quota untouched");
        assert!(session.awaiting_ack.len() == 1 && session.retrasmit_queue.len() == 1 && matches!(rcv0.try_recv(), Ok(None)), "pending operations untouched");
        kani::cover!(res.is_ok(), "opt: keeps serving");
        kani::cover!(res.is_err(), "opt: returns an error");
        core::mem::forget(res);
        core::mem::forget(session);
        core::mem::forget(rcv0);
    }
    #[kani::proof]
    #[kani::unwind(6)]
    pub(crate) fn step_pkt_unexpected_auth() {
        step_unexpected_body(0);
    }
    #[kani::proof]
    #[kani::unwind(6)]
    pub(crate) fn step_pkt_unexpected_connack() {
        step_unexpected_body(1);
    }

    // ------------------------------------------------------------------ teardown
    fn teardown_body(reset_only: bool) {
        let (sender, receiver) = mpsc::unbounded::<ContextMessage>();
        // a request that was queued but never handled
        let (sq, mut rq) = oneshot::channel::<Result<(), MqttError>>();
        assert!(sender.unbounded_send(ContextMessage::FireAndForget(FireAndForget { packet: BytesMut::new(), response_channel: sq })).is_ok());
        // a request that was sent and waits for its acknowledgement, a registered stream, a stored packet
        let (s0, mut rcv0) = oneshot::channel::<Result<RxPacket, MqttError>>();
        let (st, mut rs) = mpsc::unbounded::<RxPacket>();
        let mut session = Session { awaiting_ack: VecDeque::new(), subscriptions: VecDeque::new(), retrasmit_queue: VecDeque::new() };
        session.awaiting_ack.push_back((aid(PUBACK, 7), s0));
        session.subscriptions.push_back((5, st));
        static STORED: [u8; 4] = [0x3a, 2, 0, 7];
        session.retrasmit_queue.push_back((aid(PUBACK, 7), Bytes::from_static(&STORED)));
        let mut ctx: CtxR = Context {
            rx: Some(RxPacketStream::from(NoRx)),
            tx: Some(TxPacketStream::from(RecTx::new())),
            message_queue: receiver,
            session,
            connection: Connection { disconnection_timestamp: None, session_expiry_interval: 0, remote_receive_maximum: 10, remote_max_packet_size: None, send_quota: 9 },
        };
        if reset_only {
            CtxR::reset_session(&mut ctx.session);
            assert!(ctx.session.awaiting_ack.is_empty() && ctx.session.subscriptions.is_empty() && ctx.session.retrasmit_queue.is_empty(), "an expired session forgets everything");
            core::mem::forget(ctx);
        } else {
            drop(ctx);
        }
        match rcv0.try_recv() {
            Err(_) => {}
            _ => panic!("an operation waiting for its acknowledgement is released (Canceled -> ContextExited), it does not hang"),
        }
        match rs.try_next() {
            Ok(None) => {}
            _ => panic!("a subscription stream ends"),
        }
        if !reset_only {
            match rq.try_recv() {
                Err(_) => {}
                _ => panic!("a request still in the queue is released as well"),
            }
            let (sq2, rq2) = oneshot::channel::<Result<(), MqttError>>();
            assert!(sender.unbounded_send(ContextMessage::FireAndForget(FireAndForget { packet: BytesMut::new(), response_channel: sq2 })).is_err(), "an operation started afterwards cannot reach the context (-> ContextExited)");
            core::mem::forget(rq2);
        }
        kani::cover!(true, "reached the end");
        core::mem::forget(sender);
        core::mem::forget(rcv0);
        core::mem::forget(rs);
        core::mem::forget(rq);
    }
    //@ h name=ctx_drop_releases props=C14 tier=quick cap=small to=900
    //@ h name=ctx_reset_releases props=C14,C17 tier=quick cap=small to=900
    //@ claim: dropping the Context (ctx_drop) releases every sender it owns: the waiter of an operation awaiting its acknowledgement and the response channel of a request still sitting in the message queue are dropped (their futures complete with Canceled, which maps to ContextExited, see ctx_gone_mapping), registered subscription streams end, and a request issued afterwards can no longer be queued; reset_session (what run() does for an expired session) releases the waiters and streams of the abandoned session and empties the retransmit queue
    //@ bounds: one queued request, one waiter, one stream registration, one stored packet; channel = /verif/models/futures-channel
    //@ funcs: drop glue of Context / Session, Context::reset_session
    #[kani::proof]
    #[kani::unwind(4)]
    pub(crate) fn ctx_drop_releases() {
        teardown_body(false);
    }
    #[kani::proof]
    #[kani::unwind(4)]
    pub(crate) fn ctx_reset_releases() {
        teardown_body(true);
    }

    // ------------------------------------------------------------------ inbound PUBREL
    //@ h name=step_pkt_pubrel props=C08,C09 tier=quick cap=small to=1200 mem=20
    //@ claim: one Context::handle_packet step for an inbound PUBREL: exactly one PUBCOMP (70 02 <id>) with the PUBREL's packet identifier is written, the step returns Ok, and quota, waiters, retransmit queue and stream registrations are untouched
    //@ bounds: every non-zero packet identifier; PUBREL without reason string / user properties; one outstanding waiter and retransmit entry; transport accepts the write at once
    //@ assume: AckTxBuilder::build, AckTx::remaining_len and AckTx::property_len replaced by their contracts for the plain acknowledgement (harness/in_ack.rs), established on the real functions by enc_pingreq_acks and probe_ack_direct
    //@ funcs: Context::handle_packet, Context::ack, AckTx::encode, AckTx::packet_len, TxPacketStream::write
    #[kani::proof]
    #[kani::unwind(6)]
    #[kani::stub(crate::codec::ack::AckTxBuilder::build, crate::codec::ack::verif_in_ack::build_stub)]
    #[kani::stub(crate::codec::ack::AckTx::property_len, crate::codec::ack::verif_in_ack::property_len_stub)]
    #[kani::stub(crate::codec::ack::AckTx::remaining_len, crate::codec::ack::verif_in_ack::remaining_len_stub)]
    pub(crate) fn step_pkt_pubrel() {
        let mut cx = task_cx();
        let mut tx = TxPacketStream::from(RecTx::new());
        let r: u16 = kani::any();
        let q: u16 = kani::any();
        kani::assume(r >= 1 && q <= r);
        let mut connection = Connection { disconnection_timestamp: None, session_expiry_interval: kani::any(), remote_receive_maximum: r, remote_max_packet_size: kani::any(), send_quota: q };
        let mut session = Session { awaiting_ack: VecDeque::new(), subscriptions: VecDeque::new(), retrasmit_queue: VecDeque::new() };
        let (s0, mut rcv0) = oneshot::channel::<Result<RxPacket, MqttError>>();
        session.awaiting_ack.push_back((aid(PUBCOMP, 7), s0));
        static STORED: [u8; 4] = [0x62, 2, 0, 7];
        session.retrasmit_queue.push_back((aid(PUBCOMP, 7), Bytes::from_static(&STORED)));
        let pid: u16 = kani::any();
        kani::assume(pid != 0);
        let pkt = RxPacket::Pubrel(ack_rx(pid, PubrelReason::default()));
        let res = {
            let mut f = core::pin::pin!(CtxR::handle_packet(&mut tx, &mut connection, &mut session, pkt));
            match core::future::Future::poll(f.as_mut(), &mut cx) {
                core::task::Poll::Ready(x) => x,
                core::task::Poll::Pending => panic!("the transport accepts the acknowledgement at once"),
            }
        };
        assert!(res.is_ok(), "an inbound PUBREL never ends run()");
        assert!(out_n() == 4 && out(0) == 0x70 && out(1) == 2 && out(2) == (pid >> 8) as u8 && out(3) == pid as u8, "exactly one PUBCOMP with the PUBREL's packet identifier");
        assert!(connection.send_quota == q && connection.remote_receive_maximum == r, "an inbound PUBREL does not touch the send quota");
        assert!(session.awaiting_ack.len() == 1 && matches!(rcv0.try_recv(), Ok(None)) && session.retrasmit_queue.len() == 1 && session.subscriptions.is_empty(), "the client's own outstanding operations (same identifier space or not) are not affected");
        kani::cover!(pid == 7, "same identifier as an outbound exchange");
        kani::cover!(pid == 0xffff, "largest packet identifier");
        core::mem::forget(res);
        core::mem::forget(session);
        core::mem::forget(rcv0);
    }

    // ------------------------------------------------------------------ Context::ack on its own (real code, no stubs)
    macro_rules! ack_direct {
        ($name:ident, $reason:ty, $hdr:expr) => {
            #[kani::proof]
            #[kani::unwind(8)]
            pub(crate) fn $name() {
                let mut cx = task_cx();
                let mut tx = TxPacketStream::from(RecTx::new());
                let id: u16 = kani::any();
                kani::assume(id != 0);
                {
                    let mut f = core::pin::pin!(CtxR::ack::<$reason>(&mut tx, nz16(id)));
                    match core::future::Future::poll(f.as_mut(), &mut cx) {
                        core::task::Poll::Ready(Ok(())) => {}
                        _ => panic!("the acknowledgement is written at once when the transport accepts it"),
                    }
                }
                assert!(out_n() == 4 && out(0) == $hdr && out(1) == 2 && out(2) == (id >> 8) as u8 && out(3) == id as u8, "exactly <type> 02 <id hi> <id lo>");
                kani::cover!(id == 0x0100, "identifier 256");
                kani::cover!(id == 0xffff, "largest identifier");
            }
        };
    }
    //@ h name=ack_direct_puback props=C08 tier=quick cap=small to=600
    //@ h name=ack_direct_pubrec props=C08 tier=quick cap=small to=600
    //@ h name=ack_direct_pubcomp props=C08 tier=quick cap=small to=600
    //@ claim: Context::ack::<R>(tx, id), the only place acknowledgements of inbound packets are produced, writes exactly one four-byte acknowledgement <type> 02 <id hi> <id lo> of the requested type carrying the given identifier, for every non-zero identifier (real builder, length and encode code; this also establishes the contracts used as stubs by step_pkt_pubrel)
    //@ bounds: R in {PubackReason, PubrecReason, PubcompReason}; every non-zero packet identifier; transport accepts the write at once
    //@ funcs: Context::ack, AckTxBuilder::build, AckTx::packet_len/remaining_len/property_len/encode, TxPacketStream::write
    ack_direct!(ack_direct_puback, PubackReason, 0x40);
    ack_direct!(ack_direct_pubrec, PubrecReason, 0x50);
    ack_direct!(ack_direct_pubcomp, PubcompReason, 0x70);
}
