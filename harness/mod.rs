//! Verification harnesses mounted inside the scratch copy of poster (cfg(kani) only).
//! See /verif/DESIGN.md.  Nothing here is compiled into poster outside the solver build.
#![allow(unused_imports, dead_code, clippy::all)]

pub(crate) mod sym;
pub(crate) mod l1_kernels;
pub(crate) mod l1_dec_prim;
pub(crate) mod l1_dec_pkt;
pub(crate) mod refdec;
pub(crate) mod l1_enc;
pub(crate) mod refenc;
pub(crate) mod l1_dec_wf;
pub(crate) mod l1_prop_exact;
