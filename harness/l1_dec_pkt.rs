//! L1-dec: `Property::try_decode` and every `*Rx::try_decode` (through `RxPacket::try_decode`) on
//! arbitrary bytes: no panic for any input (debug arithmetic), and the advance lemma for Property.
use crate::codec::*;
use crate::core::base_types::*;
use crate::core::properties::*;
use crate::core::utils::*;
use crate::verif_h::sym::*;
use bytes::Bytes;

//@ h name=property_any props=C04 tier=quick cap=small to=900
//@ claim: Property::try_decode on an arbitrary buffer never panics and Ok(p) implies p.byte_len() <= input length (so DecodeIter's advance is safe) for all 27 property kinds
//@ bounds: arbitrary buffers of 0..=7 bytes (covers id + u32 + 2 spare; strings/binaries up to 4 content bytes; user property pairs up to 2 content bytes); ASCII strings only
//@ funcs: Property::try_decode, Property::byte_len, Decoder::try_decode for all value types
#[kani::proof]
#[kani::unwind(9)]
#[kani::stub(core::str::from_utf8, crate::verif_h::sym::utf8_stub)]
pub(crate) fn property_any() {
    let b = any_bytes::<7>(0);
    let n = b.len();
    let r = Property::try_decode(b);
    if let Ok(p) = &r {
        assert!(p.byte_len() <= n, "advance lemma for Property");
        assert!(p.byte_len() >= 2, "a property is at least id + one byte");
        kani::cover!(matches!(p, Property::UserProperty(_)), "user property decoded");
        kani::cover!(matches!(p, Property::MaximumPacketSize(_)), "four byte integer property decoded");
        kani::cover!(matches!(p, Property::SubscriptionIdentifier(_)), "variable byte integer property decoded");
    } else {
        kani::cover!(true, "Err reachable");
    }
    core::mem::forget(r);
}

macro_rules! pkt_any {
    ($name:ident, $t:ty, $n:expr, $unwind:expr) => {
        #[kani::proof]
        #[kani::unwind($unwind)]
        #[kani::stub(core::str::from_utf8, crate::verif_h::sym::utf8_stub)]
        #[kani::stub(<crate::core::properties::Property as crate::core::utils::TryDecode>::try_decode, crate::verif_h::sym::property_contract)]
        pub(crate) fn $name() {
            let b = any_bytes::<$n>(2);
            let r = <$t>::try_decode(b);
            match &r {
                Ok(_) => {
                    kani::cover!(true, "Ok reachable");
                }
                Err(_) => {
                    kani::cover!(true, "Err reachable");
                }
            }
            core::mem::forget(r);
        }
    };
}

//@ h name=pkt_connack_any props=C04 tier=quick cap=small to=1500
//@ h name=pkt_publish_any props=C04 tier=quick cap=small to=1500
//@ h name=pkt_puback_any props=C04 tier=quick cap=small to=1500
//@ h name=pkt_pubrec_any props=C04 tier=thorough cap=small to=1500
//@ h name=pkt_pubrel_any props=C04 tier=thorough cap=small to=1500
//@ h name=pkt_pubcomp_any props=C04 tier=thorough cap=small to=1500
//@ h name=pkt_suback_any props=C04 tier=quick cap=small to=1500
//@ h name=pkt_unsuback_any props=C04 tier=thorough cap=small to=1500
//@ h name=pkt_pingresp_any props=C04 tier=quick cap=small to=600
//@ h name=pkt_disconnect_any props=C04 tier=quick cap=small to=1500
//@ h name=pkt_auth_any props=C04 tier=quick cap=small to=1500
//@ claim: <T>Rx::try_decode on an arbitrary buffer (header byte arbitrary too) never panics (assume-guarantee: Property::try_decode is replaced by its contract, which property_any establishes on the real function)
//@ bounds: arbitrary buffers of 2..=12 bytes (publish, suback, unsuback 10; pingresp 4); property loop <= 6 iterations (unwinding assertion); properties returned by the contract stub carry strings/binaries of 0..=2 bytes; buffers shorter than 2 bytes are never produced by the framing layer (asserted in the L2 harnesses)
//@ assume: Property::try_decode == its contract {no panic; Err or a well-formed property with 2 <= byte_len() <= input length}
//@ funcs: ConnackRx::try_decode, PublishRx::try_decode, AckRx::try_decode, SubackRx::try_decode, UnsubackRx::try_decode, PingrespRx::try_decode, DisconnectRx::try_decode, AuthRx::try_decode, the derive_builder build()/validate() of each, Decoder, DecodeIter
pkt_any!(pkt_connack_any, ConnackRx, 12, 7);
pkt_any!(pkt_publish_any, PublishRx, 10, 8);
pkt_any!(pkt_puback_any, PubackRx, 12, 7);
pkt_any!(pkt_pubrec_any, PubrecRx, 12, 7);
pkt_any!(pkt_pubrel_any, PubrelRx, 12, 7);
pkt_any!(pkt_pubcomp_any, PubcompRx, 12, 7);
pkt_any!(pkt_suback_any, SubackRx, 10, 7);
pkt_any!(pkt_unsuback_any, UnsubackRx, 10, 7);
pkt_any!(pkt_pingresp_any, PingrespRx, 4, 6);
pkt_any!(pkt_disconnect_any, DisconnectRx, 12, 7);
pkt_any!(pkt_auth_any, AuthRx, 12, 7);

macro_rules! pkt_any_e {
    ($name:ident, $t:ty, $n:expr, $unwind:expr) => {
        #[kani::proof]
        #[kani::unwind($unwind)]
        #[kani::stub(core::str::from_utf8, crate::verif_h::sym::utf8_stub)]
        #[kani::stub(<crate::core::properties::Property as crate::core::utils::TryDecode>::try_decode, crate::verif_h::sym::property_err)]
        pub(crate) fn $name() {
            let b = any_bytes::<$n>(2);
            let r = <$t>::try_decode(b);
            kani::cover!(r.is_err(), "Err reachable");
            core::mem::forget(r);
        }
    };
}
//@ h name=pkt_connack_any_s props=C04 tier=off cap=small to=900
//@ h name=pkt_publish_any_s props=C04 tier=off cap=small to=900
//@ h name=pkt_puback_any_s props=C04 tier=off cap=small to=900
//@ h name=pkt_pubrec_any_s props=C04 tier=off cap=small to=900
//@ h name=pkt_pubrel_any_s props=C04 tier=off cap=small to=900
//@ h name=pkt_pubcomp_any_s props=C04 tier=off cap=small to=900
//@ h name=pkt_suback_any_s props=C04 tier=off cap=small to=900
//@ h name=pkt_unsuback_any_s props=C04 tier=off cap=small to=900
//@ h name=pkt_disconnect_any_s props=C04 tier=off cap=small to=900
//@ h name=pkt_auth_any_s props=C04 tier=off cap=small to=900
//@ claim: small siblings (buffers of 2..=8 bytes, Property::try_decode always failing) of the pkt_<type>_any harnesses, used only to extract a concrete assignment when the full-size harness reports a failed check (trace generation switches off formula slicing and exceeds memory on the full size); the native replay decides
//@ bounds: arbitrary buffers of 2..=8 bytes
pkt_any_e!(pkt_connack_any_s, ConnackRx, 8, 6);
pkt_any_e!(pkt_publish_any_s, PublishRx, 8, 7);
pkt_any_e!(pkt_puback_any_s, PubackRx, 8, 6);
pkt_any_e!(pkt_pubrec_any_s, PubrecRx, 8, 6);
pkt_any_e!(pkt_pubrel_any_s, PubrelRx, 8, 6);
pkt_any_e!(pkt_pubcomp_any_s, PubcompRx, 8, 6);
pkt_any_e!(pkt_suback_any_s, SubackRx, 8, 6);
pkt_any_e!(pkt_unsuback_any_s, UnsubackRx, 8, 6);
pkt_any_e!(pkt_disconnect_any_s, DisconnectRx, 8, 6);
pkt_any_e!(pkt_auth_any_s, AuthRx, 8, 6);

//@ h name=pkt_dispatch_any props=C04 tier=quick cap=small to=1500
//@ claim: RxPacket::try_decode (the type dispatch on the first byte) never panics, Ok yields the variant named by the header's type nibble, and types 0,1,8,10,12 are refused
//@ bounds: all 16 type nibbles (concrete loop) with the canonical flag nibble of each type and remaining length 0 (a table check; deep per-type exploration with arbitrary bytes is in the pkt_<type>_any harnesses)
//@ funcs: RxPacket::try_decode and the prologue of every *Rx::try_decode
#[kani::proof]
#[kani::unwind(17)]
#[kani::stub(core::str::from_utf8, crate::verif_h::sym::utf8_stub)]
#[kani::stub(<crate::core::properties::Property as crate::core::utils::TryDecode>::try_decode, crate::verif_h::sym::property_contract)]
pub(crate) fn pkt_dispatch_any() {
    let mut t = 0u8;
    while t < 16 {
        let flags = if t == 6 { 2u8 } else { 0u8 };
        let raw: &'static mut [u8; 2] = Box::leak(Box::new([0u8; 2]));
        raw[0] = (t << 4) | flags;
        let b = Bytes::from_static(&raw[..2]);
        let r = RxPacket::try_decode(b);
        match &r {
            Ok(p) => {
                let want = match p {
                    RxPacket::Connack(_) => 2,
                    RxPacket::Publish(_) => 3,
                    RxPacket::Puback(_) => 4,
                    RxPacket::Pubrec(_) => 5,
                    RxPacket::Pubrel(_) => 6,
                    RxPacket::Pubcomp(_) => 7,
                    RxPacket::Suback(_) => 9,
                    RxPacket::Unsuback(_) => 11,
                    RxPacket::Pingresp(_) => 13,
                    RxPacket::Disconnect(_) => 14,
                    RxPacket::Auth(_) => 15,
                };
                assert!(t == want, "decoded variant matches the header's packet type");
                kani::cover!(t == 15, "AUTH decoded through the dispatch");
                kani::cover!(t == 14, "DISCONNECT with remaining length 0 decoded through the dispatch");
                kani::cover!(t == 13, "PINGRESP decoded through the dispatch");
            }
            Err(_) => {
                assert!(t != 13, "PINGRESP header with any remaining bytes decodes");
                kani::cover!(t == 1, "client-only packet type refused");
            }
        }
        core::mem::forget(r);
        t += 1;
    }
}
