//! C02, per property: `Property::try_decode` on the reference encoding of each of the 27 MQTT 5
//! properties (identifier concrete, value symbolic) yields the variant that belongs to the
//! identifier, carrying exactly the encoded value, and `byte_len()` equals the encoded size.
use crate::core::base_types::*;
use crate::core::properties::*;
use crate::core::utils::*;
use crate::verif_h::refenc::*;
use bytes::Bytes;

fn dec(w: &W) -> Property {
    let n = w.n;
    let r = Property::try_decode(w.bytes());
    assert!(r.is_ok(), "a well-formed property is accepted");
    let p = r.ok().unwrap();
    assert!(p.byte_len() == n, "byte_len() equals the encoded size");
    p
}
fn ascii2() -> [u8; 2] {
    let s: [u8; 2] = kani::any();
    kani::assume(s[0] < 0x80 && s[1] < 0x80);
    s
}
fn st(b: &[u8]) -> UTF8String {
    UTF8String(Bytes::copy_from_slice(b))
}

//@ h name=property_ints_exact props=C02 tier=quick cap=small to=600
//@ claim: every integer / flag / QoS / variable-byte-integer property decodes to its own variant with the encoded value (identifier -> variant table of MQTT 5 section 2.2.2.2, written independently in the harness) and byte_len() equals the encoded size
//@ bounds: identifiers 1, 2, 11, 17, 19, 23, 24, 25, 33, 34, 35, 36, 37, 39, 40, 41, 42 (concrete); plain two/four byte values symbolic over their full range; flags both values, QoS 0..2, non-zero integers at 1 and their maximum, subscription identifiers at the eight encoding-length boundaries (concrete loops; full ranges of these decoders are decided by prim_checked_exact and varint_roundtrip)
//@ funcs: Property::try_decode, Property::byte_len, Decoder::try_decode for bool, QoS, u16, u32, NonZero<u16>, NonZero<u32>, NonZero<VarSizeInt>
#[kani::proof]
#[kani::unwind(10)]
pub(crate) fn property_ints_exact() {
    let v16: u16 = kani::any();
    let v32: u32 = kani::any();
    macro_rules! one {
        ($w:expr, $exp:expr) => {{
            let mut w = W::new();
            $w(&mut w);
            let p = dec(&w);
            assert!(p == $exp, "the property identifier selects its own variant, carrying the encoded value");
            core::mem::forget(p);
        }};
    }
    // validity-checked values are concrete (both flag values, every QoS, the extremes of the
    // non-zero integers, one subscription identifier per encoded length); plain integers symbolic
    let mut k = 0;
    while k < 2 {
        let b = k == 1;
        one!(|w: &mut W| w.p_byte(1, b as u8), Property::PayloadFormatIndicator(PayloadFormatIndicator(b)));
        one!(|w: &mut W| w.p_byte(23, b as u8), Property::RequestProblemInformation(RequestProblemInformation(b)));
        one!(|w: &mut W| w.p_byte(25, b as u8), Property::RequestResponseInformation(RequestResponseInformation(b)));
        one!(|w: &mut W| w.p_byte(37, b as u8), Property::RetainAvailable(RetainAvailable(b)));
        one!(|w: &mut W| w.p_byte(40, b as u8), Property::WildcardSubscriptionAvailable(WildcardSubscriptionAvailable(b)));
        one!(|w: &mut W| w.p_byte(41, b as u8), Property::SubscriptionIdentifierAvailable(SubscriptionIdentifierAvailable(b)));
        one!(|w: &mut W| w.p_byte(42, b as u8), Property::SharedSubscriptionAvailable(SharedSubscriptionAvailable(b)));
        let nz16: u16 = if b { 1 } else { 0xffff };
        let nz32: u32 = if b { 1 } else { 0xffff_ffff };
        one!(|w: &mut W| w.p_two(33, nz16), Property::ReceiveMaximum(ReceiveMaximum(NonZero::try_from(nz16).unwrap())));
        one!(|w: &mut W| w.p_two(35, nz16), Property::TopicAlias(TopicAlias(NonZero::try_from(nz16).unwrap())));
        one!(|w: &mut W| w.p_four(39, nz32), Property::MaximumPacketSize(MaximumPacketSize(NonZero::try_from(nz32).unwrap())));
        k += 1;
    }
    let mut q = 0u8;
    while q < 3 {
        one!(|w: &mut W| w.p_byte(36, q), Property::MaximumQoS(MaximumQoS(QoS::try_from(q).unwrap())));
        q += 1;
    }
    one!(|w: &mut W| w.p_two(19, v16), Property::ServerKeepAlive(ServerKeepAlive(v16)));
    one!(|w: &mut W| w.p_two(34, v16), Property::TopicAliasMaximum(TopicAliasMaximum(v16)));
    one!(|w: &mut W| w.p_four(2, v32), Property::MessageExpiryInterval(MessageExpiryInterval(v32)));
    one!(|w: &mut W| w.p_four(17, v32), Property::SessionExpiryInterval(SessionExpiryInterval(v32)));
    one!(|w: &mut W| w.p_four(24, v32), Property::WillDelayInterval(WillDelayInterval(v32)));
    const SIDS: [u32; 8] = [1, 127, 128, 16383, 16384, 2097151, 2097152, 268435455];
    let mut i = 0;
    while i < 8 {
        let sid = SIDS[i];
        one!(
            |w: &mut W| w.p_var(11, sid),
            Property::SubscriptionIdentifier(SubscriptionIdentifier(NonZero::try_from(VarSizeInt::try_from(sid).unwrap()).unwrap()))
        );
        i += 1;
    }
    kani::cover!(v32 == 0xffff_ffff, "largest four byte value");
    kani::cover!(v16 == 0, "zero two byte value");
}

//@ h name=property_strs_exact props=C02 tier=quick cap=small to=600
//@ claim: every string / binary / string-pair property decodes to its own variant with exactly the encoded content (identifier -> variant table written independently in the harness) and byte_len() equals the encoded size
//@ bounds: identifiers 3, 8, 9, 18, 21, 22, 26, 28, 31, 38 (concrete); contents of 2 symbolic bytes (ASCII for strings, arbitrary for binaries), empty content, user property with key 2 bytes / value empty and key empty / value 2 bytes
//@ assume: core::str::from_utf8 == Ok on ASCII (non-branching stub); u16::try_decode replaced by its exact model (prim_u16_exact)
//@ funcs: Property::try_decode, Property::byte_len, UTF8String/Binary/UTF8StringPair decoders
#[kani::proof]
#[kani::unwind(8)]
#[kani::stub(core::str::from_utf8, crate::verif_h::sym::utf8_assume_ascii)]
#[kani::stub(<u16 as crate::core::utils::TryDecode>::try_decode, crate::verif_h::sym::u16_ref)]
pub(crate) fn property_strs_exact() {
    let s = ascii2();
    let bin: [u8; 2] = kani::any();
    macro_rules! one {
        ($w:expr, $exp:expr) => {{
            let mut w = W::new();
            $w(&mut w);
            let p = dec(&w);
            assert!(p == $exp, "the property identifier selects its own variant, carrying the encoded content");
            core::mem::forget(p);
        }};
    }
    one!(|w: &mut W| w.p_str(3, &s), Property::ContentType(ContentType(st(&s))));
    one!(|w: &mut W| w.p_str(8, &s), Property::ResponseTopic(ResponseTopic(st(&s))));
    one!(|w: &mut W| w.p_str(18, &s), Property::AssignedClientIdentifier(AssignedClientIdentifier(st(&s))));
    one!(|w: &mut W| w.p_str(21, &s), Property::AuthenticationMethod(AuthenticationMethod(st(&s))));
    one!(|w: &mut W| w.p_str(26, &s), Property::ResponseInformation(ResponseInformation(st(&s))));
    one!(|w: &mut W| w.p_str(28, &s), Property::ServerReference(ServerReference(st(&s))));
    one!(|w: &mut W| w.p_str(31, &s), Property::ReasonString(ReasonString(st(&s))));
    one!(|w: &mut W| w.p_str(31, &[]), Property::ReasonString(ReasonString(st(&[]))));
    one!(|w: &mut W| w.p_str(9, &bin), Property::CorrelationData(CorrelationData(Binary(Bytes::copy_from_slice(&bin)))));
    one!(|w: &mut W| w.p_str(22, &bin), Property::AuthenticationData(AuthenticationData(Binary(Bytes::copy_from_slice(&bin)))));
    one!(|w: &mut W| w.p_str(22, &[]), Property::AuthenticationData(AuthenticationData(Binary(Bytes::copy_from_slice(&[])))));
    one!(
        |w: &mut W| w.p_pair(&s, &[]),
        Property::UserProperty(UserProperty(UTF8StringPair(Bytes::copy_from_slice(&s), Bytes::copy_from_slice(&[]))))
    );
    one!(
        |w: &mut W| w.p_pair(&[], &s),
        Property::UserProperty(UserProperty(UTF8StringPair(Bytes::copy_from_slice(&[]), Bytes::copy_from_slice(&s))))
    );
    kani::cover!(s[0] == b'a' && bin[0] == 0xff, "ASCII string and arbitrary binary");
    kani::cover!(s[0] != s[1], "distinct content bytes (order matters)");
}
