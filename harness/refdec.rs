//! Independent, slice-based, strict MQTT 5 reference decoder used as the oracle of the encode
//! harnesses (C01, C06, C08).  It shares no code with poster: it works on `&[u8]` with explicit
//! indices and follows the OASIS MQTT 5.0 text section by section.  `None` means "not a
//! well-formed packet of that kind" (bad reserved bits, length fields that do not match what
//! follows, an illegal or repeated property, trailing bytes, ...).

/// MQTT variable byte integer at `buf[pos..]`: (value, number of bytes).  Refuses non-minimal
/// encodings longer than 4 bytes (1.5.5).
pub(crate) fn varint(buf: &[u8], pos: usize) -> Option<(u32, usize)> {
    let mut val = 0u32;
    let mut mult = 1u32;
    let mut i = 0usize;
    while i < 4 {
        if pos + i >= buf.len() {
            return None;
        }
        let b = buf[pos + i];
        val += (b & 0x7f) as u32 * mult;
        if b & 0x80 == 0 {
            return Some((val, i + 1));
        }
        mult *= 128;
        i += 1;
    }
    None
}

pub(crate) fn be16(buf: &[u8], pos: usize) -> Option<u16> {
    if pos + 2 > buf.len() {
        return None;
    }
    Some(((buf[pos] as u16) << 8) | buf[pos + 1] as u16)
}

pub(crate) fn be32(buf: &[u8], pos: usize) -> Option<u32> {
    if pos + 4 > buf.len() {
        return None;
    }
    Some(((buf[pos] as u32) << 24) | ((buf[pos + 1] as u32) << 16) | ((buf[pos + 2] as u32) << 8) | buf[pos + 3] as u32)
}

/// Length-prefixed string / binary at `pos`: (content, bytes consumed).
pub(crate) fn lp<'a>(buf: &'a [u8], pos: usize) -> Option<(&'a [u8], usize)> {
    let n = be16(buf, pos)? as usize;
    if pos + 2 + n > buf.len() {
        return None;
    }
    Some((&buf[pos + 2..pos + 2 + n], 2 + n))
}

/// What the harness expects to find in one property block.  Values are checked while parsing
/// (no symbolic-index stores, which are expensive for the solver); `ids`, `present`, `ival`,
/// `sval` are parallel: property `ids[k]` must be present iff `present[k]`, with integer value
/// `ival[k]` (byte / two / four byte / variable byte integer kinds) or content `sval[k]` (string and
/// binary kinds).  `users` are the expected user properties, in order.  Any identifier not in
/// `ids` (other than 38 when `users` is given) makes the block ill-formed for this packet type.
pub(crate) struct Exp<'a> {
    pub(crate) ids: &'a [u8],
    pub(crate) present: &'a [bool],
    pub(crate) ival: &'a [u32],
    pub(crate) sval: &'a [&'a [u8]],
    pub(crate) users: &'a [(&'a [u8], &'a [u8])],
    pub(crate) n_users: usize,
}

pub(crate) const E_STRUCT: u8 = 1; // length fields / truncation / trailing bytes
pub(crate) const E_ILLEGAL: u8 = 2; // identifier not legal for this packet type, or unknown
pub(crate) const E_DUP: u8 = 3; // non-repeatable property twice
pub(crate) const E_VALUE: u8 = 4; // value differs from the supplied one or is out of range
pub(crate) const E_MISSING: u8 = 5; // a supplied property is not on the wire
pub(crate) const E_USER: u8 = 6; // user properties differ (count, order or content)
pub(crate) const E_UNEXPECTED: u8 = 7; // a legal property is on the wire although none was supplied

#[derive(Clone, Copy, PartialEq)]
enum Kind {
    Byte,
    Two,
    Four,
    Var,
    Str,
    Bin,
    Pair,
    Bad,
}

fn kind(id: u8) -> Kind {
    match id {
        1 | 23 | 25 | 36 | 37 | 40 | 41 | 42 => Kind::Byte,
        19 | 33 | 34 | 35 => Kind::Two,
        2 | 17 | 24 | 39 => Kind::Four,
        11 => Kind::Var,
        3 | 8 | 18 | 21 | 26 | 28 | 31 => Kind::Str,
        9 | 22 => Kind::Bin,
        38 => Kind::Pair,
        _ => Kind::Bad,
    }
}

/// Parses the property block at `pos` (length field first) and checks it against `e`.
/// Ok(bytes consumed including the length field) or Err(code).
pub(crate) fn props(buf: &[u8], pos: usize, e: &Exp<'_>) -> Result<usize, u8> {
    let (plen, n) = match varint(buf, pos) {
        Some(x) => x,
        None => return Err(E_STRUCT),
    };
    let start = pos + n;
    let end = start + plen as usize;
    if end > buf.len() {
        return Err(E_STRUCT);
    }
    let mut seen: u64 = 0;
    let mut n_user = 0usize;
    let mut at = start;
    while at < end {
        let id = buf[at];
        at += 1;
        if id == 38 {
            let (ks, n1) = match lp(buf, at) {
                Some(x) => x,
                None => return Err(E_STRUCT),
            };
            let (vs, n2) = match lp(buf, at + n1) {
                Some(x) => x,
                None => return Err(E_STRUCT),
            };
            if at + n1 + n2 > end {
                return Err(E_STRUCT);
            }
            if n_user >= e.n_users {
                return Err(E_USER);
            }
            let (ek, ev) = e.users[n_user];
            if !eq(ks, ek) || !eq(vs, ev) {
                return Err(E_USER);
            }
            n_user += 1;
            at += n1 + n2;
            continue;
        }
        // expectation for this identifier (constant-bound loop over the legal identifiers)
        let mut legal = false;
        let mut want = false;
        let mut ei = 0u32;
        let mut es: &[u8] = &[];
        let mut k = 0;
        while k < e.ids.len() {
            if e.ids[k] == id {
                legal = true;
                want = e.present[k];
                ei = e.ival[k];
                es = e.sval[k];
            }
            k += 1;
        }
        if !legal || id >= 43 {
            return Err(E_ILLEGAL);
        }
        if seen & (1u64 << id) != 0 {
            return Err(E_DUP);
        }
        seen |= 1u64 << id;
        if !want {
            return Err(E_UNEXPECTED);
        }
        match kind(id) {
            Kind::Byte => {
                if at + 1 > end {
                    return Err(E_STRUCT);
                }
                let v = buf[at];
                if v > 1 || v as u32 != ei {
                    return Err(E_VALUE);
                }
                at += 1;
            }
            Kind::Two => {
                if at + 2 > end {
                    return Err(E_STRUCT);
                }
                let v = ((buf[at] as u32) << 8) | buf[at + 1] as u32;
                if ((id == 33 || id == 35) && v == 0) || v != ei {
                    return Err(E_VALUE);
                }
                at += 2;
            }
            Kind::Four => {
                if at + 4 > end {
                    return Err(E_STRUCT);
                }
                let v = ((buf[at] as u32) << 24) | ((buf[at + 1] as u32) << 16) | ((buf[at + 2] as u32) << 8) | buf[at + 3] as u32;
                if (id == 39 && v == 0) || v != ei {
                    return Err(E_VALUE);
                }
                at += 4;
            }
            Kind::Var => {
                let (v, n) = match varint(buf, at) {
                    Some(x) => x,
                    None => return Err(E_STRUCT),
                };
                if at + n > end {
                    return Err(E_STRUCT);
                }
                if v == 0 || v != ei {
                    return Err(E_VALUE);
                }
                at += n;
            }
            Kind::Str | Kind::Bin => {
                let (sv, n) = match lp(buf, at) {
                    Some(x) => x,
                    None => return Err(E_STRUCT),
                };
                if at + n > end {
                    return Err(E_STRUCT);
                }
                if !eq(sv, es) {
                    return Err(E_VALUE);
                }
                at += n;
            }
            Kind::Pair | Kind::Bad => return Err(E_ILLEGAL),
        }
    }
    if at != end {
        return Err(E_STRUCT);
    }
    if n_user != e.n_users {
        return Err(E_USER);
    }
    let mut k = 0;
    while k < e.ids.len() {
        if e.present[k] && seen & (1u64 << e.ids[k]) == 0 {
            return Err(E_MISSING);
        }
        k += 1;
    }
    Ok(n + plen as usize)
}

pub(crate) const NO_PROPS: Exp<'static> = Exp { ids: &[], present: &[], ival: &[], sval: &[], users: &[], n_users: 0 };

/// Fixed header: (type nibble, flags nibble, remaining length, offset of the variable header).
/// Requires the remaining length to equal exactly the number of bytes that follow.
pub(crate) fn fixed(buf: &[u8]) -> Option<(u8, u8, usize)> {
    if buf.len() < 2 {
        return None;
    }
    let (rl, n) = varint(buf, 1)?;
    if 1 + n + rl as usize != buf.len() {
        return None;
    }
    Some((buf[0] >> 4, buf[0] & 0x0f, 1 + n))
}

pub(crate) struct Connect<'a> {
    pub(crate) flags: u8,
    pub(crate) keep_alive: u16,
    pub(crate) client_id: &'a [u8],
    pub(crate) will_topic: Option<&'a [u8]>,
    pub(crate) will_payload: Option<&'a [u8]>,
    pub(crate) username: Option<&'a [u8]>,
    pub(crate) password: Option<&'a [u8]>,
}

/// CONNECT (3.1).  `pe` / `we`: expected CONNECT properties / will properties.
pub(crate) fn connect<'a>(buf: &'a [u8], pe: &Exp<'_>, we: &Exp<'_>) -> Result<Connect<'a>, u8> {
    let (t, fl, mut at) = fixed(buf).ok_or(E_STRUCT)?;
    if t != 1 || fl != 0 {
        return Err(E_STRUCT);
    }
    let (name, n) = lp(buf, at).ok_or(E_STRUCT)?;
    if name.len() != 4 || name[0] != b'M' || name[1] != b'Q' || name[2] != b'T' || name[3] != b'T' {
        return Err(E_STRUCT);
    }
    at += n;
    if at + 4 > buf.len() || buf[at] != 5 {
        return Err(E_STRUCT);
    }
    let flags = buf[at + 1];
    if flags & 1 != 0 {
        return Err(E_STRUCT); // reserved
    }
    let will = flags & 0x04 != 0;
    let will_qos = (flags >> 3) & 3;
    if will_qos == 3 || (!will && (will_qos != 0 || flags & 0x20 != 0)) {
        return Err(E_STRUCT);
    }
    let keep_alive = be16(buf, at + 2).ok_or(E_STRUCT)?;
    at += 4;
    at += props(buf, at, pe)?;
    let (client_id, n) = lp(buf, at).ok_or(E_STRUCT)?;
    at += n;
    let mut will_topic = None;
    let mut will_payload = None;
    if will {
        at += props(buf, at, we)?;
        let (wt, n) = lp(buf, at).ok_or(E_STRUCT)?;
        at += n;
        will_topic = Some(wt);
        let (wl, n) = lp(buf, at).ok_or(E_STRUCT)?;
        at += n;
        will_payload = Some(wl);
    }
    let mut username = None;
    let mut password = None;
    if flags & 0x80 != 0 {
        let (u, n) = lp(buf, at).ok_or(E_STRUCT)?;
        at += n;
        username = Some(u);
    }
    if flags & 0x40 != 0 {
        let (pw, n) = lp(buf, at).ok_or(E_STRUCT)?;
        at += n;
        password = Some(pw);
    }
    if at != buf.len() {
        return Err(E_STRUCT);
    }
    Ok(Connect { flags, keep_alive, client_id, will_topic, will_payload, username, password })
}

pub(crate) struct Publish<'a> {
    pub(crate) dup: bool,
    pub(crate) qos: u8,
    pub(crate) retain: bool,
    pub(crate) topic: &'a [u8],
    pub(crate) packet_id: Option<u16>,
    pub(crate) payload: &'a [u8],
}

/// PUBLISH (3.3), client to server (a subscription identifier is not legal in that direction).
pub(crate) fn publish<'a>(buf: &'a [u8], pe: &Exp<'_>) -> Result<Publish<'a>, u8> {
    let (t, fl, mut at) = fixed(buf).ok_or(E_STRUCT)?;
    if t != 3 {
        return Err(E_STRUCT);
    }
    let qos = (fl >> 1) & 3;
    if qos == 3 {
        return Err(E_STRUCT);
    }
    let (topic, n) = lp(buf, at).ok_or(E_STRUCT)?;
    at += n;
    let mut packet_id = None;
    if qos > 0 {
        let id = be16(buf, at).ok_or(E_STRUCT)?;
        if id == 0 {
            return Err(E_STRUCT);
        }
        packet_id = Some(id);
        at += 2;
    }
    at += props(buf, at, pe)?;
    Ok(Publish { dup: fl & 8 != 0, qos, retain: fl & 1 != 0, topic, packet_id, payload: &buf[at..] })
}

pub(crate) struct Ack {
    pub(crate) packet_id: u16,
    pub(crate) reason: u8,
    /// 2 = identifier only, 3 = identifier + reason, 4 = with property length
    pub(crate) form: u8,
}

/// PUBACK / PUBREC / PUBREL / PUBCOMP (3.4 - 3.7), including the two shortened forms.
pub(crate) fn ack(buf: &[u8], ptype: u8, pe: &Exp<'_>) -> Result<Ack, u8> {
    let (t, fl, at) = fixed(buf).ok_or(E_STRUCT)?;
    if t != ptype || fl != (if ptype == 6 { 2 } else { 0 }) {
        return Err(E_STRUCT);
    }
    let id = be16(buf, at).ok_or(E_STRUCT)?;
    if id == 0 {
        return Err(E_STRUCT);
    }
    let rest = buf.len() - at;
    if rest == 2 {
        return Ok(Ack { packet_id: id, reason: 0, form: 2 });
    }
    let reason = buf[at + 2];
    if rest == 3 {
        return Ok(Ack { packet_id: id, reason, form: 3 });
    }
    let n = props(buf, at + 3, pe)?;
    if at + 3 + n != buf.len() {
        return Err(E_STRUCT);
    }
    Ok(Ack { packet_id: id, reason, form: 4 })
}

pub(crate) const MAX_FILTERS: usize = 3;

pub(crate) struct Subscribe<'a> {
    pub(crate) packet_id: u16,
    pub(crate) filters: [(&'a [u8], u8); MAX_FILTERS],
    pub(crate) n: usize,
}

/// SUBSCRIBE (3.8).
pub(crate) fn subscribe<'a>(buf: &'a [u8], pe: &Exp<'_>) -> Result<Subscribe<'a>, u8> {
    let (t, fl, mut at) = fixed(buf).ok_or(E_STRUCT)?;
    if t != 8 || fl != 2 {
        return Err(E_STRUCT);
    }
    let id = be16(buf, at).ok_or(E_STRUCT)?;
    if id == 0 {
        return Err(E_STRUCT);
    }
    at += 2;
    at += props(buf, at, pe)?;
    let mut filters: [(&[u8], u8); MAX_FILTERS] = [(&[], 0); MAX_FILTERS];
    let mut k = 0;
    while at < buf.len() {
        if k >= MAX_FILTERS {
            return Err(E_STRUCT);
        }
        let (f, n) = lp(buf, at).ok_or(E_STRUCT)?;
        at += n;
        if at >= buf.len() {
            return Err(E_STRUCT);
        }
        let o = buf[at];
        // bits 6,7 reserved; retain handling 3 is a protocol error; QoS 3 is malformed
        if o & 0xc0 != 0 || (o >> 4) & 3 == 3 || o & 3 == 3 {
            return Err(E_VALUE);
        }
        at += 1;
        filters[k] = (f, o);
        k += 1;
    }
    if k == 0 {
        return Err(E_STRUCT);
    }
    Ok(Subscribe { packet_id: id, filters, n: k })
}

pub(crate) struct Unsubscribe<'a> {
    pub(crate) packet_id: u16,
    pub(crate) filters: [&'a [u8]; MAX_FILTERS],
    pub(crate) n: usize,
}

/// UNSUBSCRIBE (3.10).
pub(crate) fn unsubscribe<'a>(buf: &'a [u8], pe: &Exp<'_>) -> Result<Unsubscribe<'a>, u8> {
    let (t, fl, mut at) = fixed(buf).ok_or(E_STRUCT)?;
    if t != 10 || fl != 2 {
        return Err(E_STRUCT);
    }
    let id = be16(buf, at).ok_or(E_STRUCT)?;
    if id == 0 {
        return Err(E_STRUCT);
    }
    at += 2;
    at += props(buf, at, pe)?;
    let mut filters: [&[u8]; MAX_FILTERS] = [&[]; MAX_FILTERS];
    let mut k = 0;
    while at < buf.len() {
        if k >= MAX_FILTERS {
            return Err(E_STRUCT);
        }
        let (f, n) = lp(buf, at).ok_or(E_STRUCT)?;
        at += n;
        filters[k] = f;
        k += 1;
    }
    if k == 0 {
        return Err(E_STRUCT);
    }
    Ok(Unsubscribe { packet_id: id, filters, n: k })
}

/// DISCONNECT (3.14), client to server: Ok((reason, form)) with form 0 = no reason byte,
/// 1 = reason only, 2 = with properties.
pub(crate) fn disconnect(buf: &[u8], pe: &Exp<'_>) -> Result<(u8, u8), u8> {
    let (t, fl, at) = fixed(buf).ok_or(E_STRUCT)?;
    if t != 14 || fl != 0 {
        return Err(E_STRUCT);
    }
    let rest = buf.len() - at;
    if rest == 0 {
        return Ok((0, 0));
    }
    let reason = buf[at];
    if rest == 1 {
        return Ok((reason, 1));
    }
    let n = props(buf, at + 1, pe)?;
    if at + 1 + n != buf.len() {
        return Err(E_STRUCT);
    }
    Ok((reason, 2))
}

/// AUTH (3.15): Ok((reason, form)) with form 0 = remaining length 0, 2 = reason + properties.
pub(crate) fn auth(buf: &[u8], pe: &Exp<'_>) -> Result<(u8, u8), u8> {
    let (t, fl, at) = fixed(buf).ok_or(E_STRUCT)?;
    if t != 15 || fl != 0 {
        return Err(E_STRUCT);
    }
    let rest = buf.len() - at;
    if rest == 0 {
        return Ok((0, 0));
    }
    let reason = buf[at];
    if reason != 0 && reason != 0x18 && reason != 0x19 {
        return Err(E_VALUE);
    }
    if rest == 1 {
        return Err(E_STRUCT); // the reason code may only be omitted together with the property length
    }
    let n = props(buf, at + 1, pe)?;
    if at + 1 + n != buf.len() {
        return Err(E_STRUCT);
    }
    Ok((reason, 2))
}

/// PINGREQ (3.12).
pub(crate) fn pingreq(buf: &[u8]) -> bool {
    buf.len() == 2 && buf[0] == 0xc0 && buf[1] == 0
}

pub(crate) fn eq(a: &[u8], b: &[u8]) -> bool {
    if a.len() != b.len() {
        return false;
    }
    let mut i = 0;
    while i < a.len() {
        if a[i] != b[i] {
            return false;
        }
        i += 1;
    }
    true
}

pub(crate) fn opt_eq(a: Option<&[u8]>, b: Option<&[u8]>) -> bool {
    match (a, b) {
        (None, None) => true,
        (Some(x), Some(y)) => eq(x, y),
        _ => false,
    }
}
