//! L1-dec: primitive decoders on arbitrary bytes.  Contract (what makes `Decoder::try_decode`'s
//! `advance_by(byte_len())` safe): never panic, and `Ok(v)` implies `v.byte_len() <= input.len()`.
use crate::codec::*;
use crate::core::base_types::*;
use crate::core::utils::*;
use crate::verif_h::sym::*;
use bytes::Bytes;

macro_rules! prim_any {
    ($name:ident, $t:ty, $n:expr, $unwind:expr) => {
        #[kani::proof]
        #[kani::unwind($unwind)]
        #[kani::stub(core::str::from_utf8, crate::verif_h::sym::utf8_stub)]
        pub(crate) fn $name() {
            let b = any_bytes::<$n>(0);
            let n = b.len();
            let mut d = Decoder::from(b);
            let r = d.try_decode::<$t>();
            if let Ok(v) = &r {
                assert!(v.byte_len() <= n, "advance lemma: byte_len() of a decoded value <= input length");
                assert!(d.remaining() == n - v.byte_len(), "decoder advanced by byte_len()");
                kani::cover!(true, "Ok reachable");
            } else {
                kani::cover!(true, "Err reachable");
            }
            core::mem::forget(r);
        }
    };
}

//@ h name=prim_u8_any props=C04 tier=quick cap=small to=300
//@ h name=prim_u16_any props=C04 tier=quick cap=small to=300
//@ h name=prim_u32_any props=C04 tier=quick cap=small to=300
//@ h name=prim_bool_any props=C04 tier=quick cap=small to=300
//@ h name=prim_qos_any props=C04 tier=quick cap=small to=300
//@ h name=prim_varint_any props=C04 tier=quick cap=small to=300
//@ h name=prim_nz_u8_any props=C04 tier=quick cap=small to=300
//@ h name=prim_nz_u16_any props=C04 tier=quick cap=small to=300
//@ h name=prim_nz_u32_any props=C04 tier=quick cap=small to=300
//@ h name=prim_nz_varint_any props=C04 tier=quick cap=small to=300
//@ h name=prim_binary_any props=C04 tier=quick cap=small to=300
//@ h name=prim_utf8_any props=C04 tier=quick cap=small to=300
//@ h name=prim_utf8pair_any props=C04 tier=quick cap=small to=300
//@ h name=prim_reason_connect_any props=C04 tier=quick cap=small to=300
//@ h name=prim_reason_auth_any props=C04 tier=quick cap=small to=300
//@ h name=prim_reason_disconnect_any props=C04 tier=quick cap=small to=300
//@ h name=prim_reason_puback_any props=C04 tier=quick cap=small to=300
//@ h name=prim_reason_pubrec_any props=C04 tier=quick cap=small to=300
//@ h name=prim_reason_pubrel_any props=C04 tier=quick cap=small to=300
//@ h name=prim_reason_pubcomp_any props=C04 tier=quick cap=small to=300
//@ h name=prim_reason_suback_any props=C04 tier=quick cap=small to=300
//@ h name=prim_reason_unsuback_any props=C04 tier=quick cap=small to=300
//@ claim: each primitive decoder, driven through Decoder::try_decode on an arbitrary buffer, never panics, and Ok(v) implies v.byte_len() <= input length and the decoder advanced by exactly byte_len()
//@ bounds: arbitrary buffers of 0..=N bytes (N = 2..8 per type, at least two bytes beyond the longest fixed-size form); strings ASCII only (from_utf8 stub)
//@ funcs: Decoder::try_decode, Decoder::advance_by, <T as TryDecode>::try_decode, <T as ByteLen>::byte_len for every primitive T and reason enum
prim_any!(prim_u8_any, u8, 3, 5);
prim_any!(prim_u16_any, u16, 4, 6);
prim_any!(prim_u32_any, u32, 6, 8);
prim_any!(prim_bool_any, bool, 3, 5);
prim_any!(prim_qos_any, QoS, 3, 5);
prim_any!(prim_varint_any, VarSizeInt, 6, 8);
prim_any!(prim_nz_u8_any, NonZero<u8>, 3, 5);
prim_any!(prim_nz_u16_any, NonZero<u16>, 4, 6);
prim_any!(prim_nz_u32_any, NonZero<u32>, 6, 8);
prim_any!(prim_nz_varint_any, NonZero<VarSizeInt>, 6, 8);
prim_any!(prim_binary_any, Binary, 6, 8);
prim_any!(prim_utf8_any, UTF8String, 6, 8);
prim_any!(prim_utf8pair_any, UTF8StringPair, 8, 10);
prim_any!(prim_reason_connect_any, ConnectReason, 2, 4);
prim_any!(prim_reason_auth_any, AuthReason, 2, 4);
prim_any!(prim_reason_disconnect_any, DisconnectReason, 2, 4);
prim_any!(prim_reason_puback_any, PubackReason, 2, 4);
prim_any!(prim_reason_pubrec_any, PubrecReason, 2, 4);
prim_any!(prim_reason_pubrel_any, PubrelReason, 2, 4);
prim_any!(prim_reason_pubcomp_any, PubcompReason, 2, 4);
prim_any!(prim_reason_suback_any, SubackReason, 2, 4);
prim_any!(prim_reason_unsuback_any, UnsubackReason, 2, 4);
