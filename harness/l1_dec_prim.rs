//! L1-dec: primitive decoders on arbitrary bytes.  Contract (what makes `Decoder::try_decode`'s
//! `advance_by(byte_len())` safe): never panic, and `Ok(v)` implies `v.byte_len() <= input.len()`.
use crate::codec::*;
use crate::core::base_types::*;
use crate::core::utils::*;
use crate::verif_h::sym::*;
use bytes::Bytes;

macro_rules! prim_any {
    ($name:ident, $t:ty, $n:expr, $unwind:expr) => {
        #[kani::proof]
        #[kani::unwind($unwind)]
        #[kani::stub(core::str::from_utf8, crate::verif_h::sym::utf8_stub)]
        pub(crate) fn $name() {
            let b = any_bytes::<$n>(0);
            let n = b.len();
            let mut d = Decoder::from(b);
            let r = d.try_decode::<$t>();
            if let Ok(v) = &r {
                assert!(v.byte_len() <= n, "advance lemma: byte_len() of a decoded value <= input length");
                assert!(d.remaining() == n - v.byte_len(), "decoder advanced by byte_len()");
                kani::cover!(true, "Ok reachable");
            } else {
                kani::cover!(true, "Err reachable");
            }
            core::mem::forget(r);
        }
    };
}

//@ h name=prim_u8_any props=C04 tier=quick cap=small to=300
//@ h name=prim_u16_any props=C04 tier=quick cap=small to=300
//@ h name=prim_u32_any props=C04 tier=quick cap=small to=300
//@ h name=prim_bool_any props=C04 tier=quick cap=small to=300
//@ h name=prim_qos_any props=C04 tier=quick cap=small to=300
//@ h name=prim_varint_any props=C04 tier=quick cap=small to=300
//@ h name=prim_nz_u8_any props=C04 tier=quick cap=small to=300
//@ h name=prim_nz_u16_any props=C04 tier=quick cap=small to=300
//@ h name=prim_nz_u32_any props=C04 tier=quick cap=small to=300
//@ h name=prim_nz_varint_any props=C04 tier=quick cap=small to=300
//@ h name=prim_binary_any props=C04 tier=quick cap=small to=300
//@ h name=prim_utf8_any props=C04 tier=quick cap=small to=300
//@ h name=prim_utf8pair_any props=C04 tier=quick cap=small to=300
//@ h name=prim_reason_connect_any props=C04 tier=quick cap=small to=300
//@ h name=prim_reason_auth_any props=C04 tier=quick cap=small to=300
//@ h name=prim_reason_disconnect_any props=C04 tier=quick cap=small to=300
//@ h name=prim_reason_puback_any props=C04 tier=quick cap=small to=300
//@ h name=prim_reason_pubrec_any props=C04 tier=quick cap=small to=300
//@ h name=prim_reason_pubrel_any props=C04 tier=quick cap=small to=300
//@ h name=prim_reason_pubcomp_any props=C04 tier=quick cap=small to=300
//@ h name=prim_reason_suback_any props=C04 tier=quick cap=small to=300
//@ h name=prim_reason_unsuback_any props=C04 tier=quick cap=small to=300
//@ claim: each primitive decoder, driven through Decoder::try_decode on an arbitrary buffer, never panics, and Ok(v) implies v.byte_len() <= input length and the decoder advanced by exactly byte_len()
//@ bounds: arbitrary buffers of 0..=N bytes (N = 2..8 per type, at least two bytes beyond the longest fixed-size form); strings ASCII only (from_utf8 stub)
//@ funcs: Decoder::try_decode, Decoder::advance_by, <T as TryDecode>::try_decode, <T as ByteLen>::byte_len for every primitive T and reason enum
prim_any!(prim_u8_any, u8, 3, 5);
prim_any!(prim_u16_any, u16, 4, 6);
prim_any!(prim_u32_any, u32, 6, 8);
prim_any!(prim_bool_any, bool, 3, 5);
prim_any!(prim_qos_any, QoS, 3, 5);
prim_any!(prim_varint_any, VarSizeInt, 6, 8);
prim_any!(prim_nz_u8_any, NonZero<u8>, 3, 5);
prim_any!(prim_nz_u16_any, NonZero<u16>, 4, 6);
prim_any!(prim_nz_u32_any, NonZero<u32>, 6, 8);
prim_any!(prim_nz_varint_any, NonZero<VarSizeInt>, 6, 8);
prim_any!(prim_binary_any, Binary, 6, 8);
prim_any!(prim_utf8_any, UTF8String, 6, 8);
prim_any!(prim_utf8pair_any, UTF8StringPair, 8, 10);
prim_any!(prim_reason_connect_any, ConnectReason, 2, 4);
prim_any!(prim_reason_auth_any, AuthReason, 2, 4);
prim_any!(prim_reason_disconnect_any, DisconnectReason, 2, 4);
prim_any!(prim_reason_puback_any, PubackReason, 2, 4);
prim_any!(prim_reason_pubrec_any, PubrecReason, 2, 4);
prim_any!(prim_reason_pubrel_any, PubrelReason, 2, 4);
prim_any!(prim_reason_pubcomp_any, PubcompReason, 2, 4);
prim_any!(prim_reason_suback_any, SubackReason, 2, 4);
prim_any!(prim_reason_unsuback_any, UnsubackReason, 2, 4);

//@ h name=prim_u16_exact props=C02,C04 tier=quick cap=small to=300
//@ h name=prim_u32_exact props=C02,C04 tier=quick cap=small to=300
//@ claim: <u16/u32 as TryDecode>::try_decode equals the reference (big-endian value of the first 2/4 bytes; error exactly when fewer bytes are available) on every input; this is the contract under which the structural decode harnesses replace u16::try_decode by its straight-line model
//@ bounds: arbitrary buffers of 0..=4 (u16) and 0..=6 (u32) bytes; only the first 2/4 bytes are read
//@ funcs: <u16 as TryDecode>::try_decode, <u32 as TryDecode>::try_decode
#[kani::proof]
#[kani::unwind(6)]
pub(crate) fn prim_u16_exact() {
    let b = any_bytes::<4>(0);
    let real = u16::try_decode(b.clone());
    let model = u16_ref(b.clone());
    match (&real, &model) {
        (Ok(x), Ok(y)) => {
            assert!(x == y, "u16 decoder returns the big-endian value of the first two bytes");
            kani::cover!(*x == 0x0102, "value 0x0102");
        }
        (Err(_), Err(_)) => {
            kani::cover!(true, "short input refused");
        }
        _ => panic!("u16 decoder succeeds exactly when at least two bytes are available"),
    }
    core::mem::forget(real);
    core::mem::forget(model);
}

#[kani::proof]
#[kani::unwind(8)]
pub(crate) fn prim_u32_exact() {
    let b = any_bytes::<6>(0);
    let real = u32::try_decode(b.clone());
    if b.len() < 4 {
        assert!(real.is_err(), "u32 decoder refuses fewer than four bytes");
        kani::cover!(true, "short input refused");
    } else {
        let want = ((b[0] as u32) << 24) | ((b[1] as u32) << 16) | ((b[2] as u32) << 8) | b[3] as u32;
        assert!(matches!(real, Ok(x) if x == want), "u32 decoder returns the big-endian value of the first four bytes");
        kani::cover!(want == 0x01020304, "value 0x01020304");
    }
    core::mem::forget(real);
}


macro_rules! reason_exact {
    ($name:ident, $t:ty, [$($code:expr),*]) => {
        #[kani::proof]
        #[kani::unwind(4)]
        pub(crate) fn $name() {
            let b: u8 = kani::any();
            let legal = false $(|| b == $code)*;
            let r = <$t>::try_from(b);
            match r {
                Ok(v) => {
                    assert!(legal, "only the codes MQTT 5 defines for this packet are accepted");
                    assert!(v as u8 == b, "the decoded reason has the numeric value that was on the wire");
                    kani::cover!(b >= 0x80, "opt: failing reason code accepted");
                    kani::cover!(true, "defined code accepted");
                }
                Err(_) => {
                    assert!(!legal, "every code MQTT 5 defines for this packet is accepted");
                    kani::cover!(true, "undefined code refused");
                }
            }
        }
    };
}
//@ h name=reason_connect_exact props=C02 tier=quick cap=small to=300
//@ h name=reason_disconnect_exact props=C02 tier=quick cap=small to=300
//@ h name=reason_puback_exact props=C02 tier=quick cap=small to=300
//@ h name=reason_pubrec_exact props=C02 tier=quick cap=small to=300
//@ h name=reason_pubrel_exact props=C02 tier=quick cap=small to=300
//@ h name=reason_pubcomp_exact props=C02 tier=quick cap=small to=300
//@ h name=reason_suback_exact props=C02 tier=quick cap=small to=300
//@ h name=reason_unsuback_exact props=C02 tier=quick cap=small to=300
//@ h name=reason_auth_exact props=C02 tier=quick cap=small to=300
//@ claim: each reason-code decoder accepts exactly the codes MQTT 5 defines for that packet type (tables 3.2.2.2, 3.4.2.1, 3.5.2.1, 3.6.2.1, 3.7.2.1, 3.9.3, 3.11.3, 3.14.2.1, 3.15.2.1, listed independently in the harness) and maps each to the value with the same number
//@ bounds: all 256 byte values (exhaustive by solver)
//@ funcs: TryFrom<u8> for ConnectReason, DisconnectReason, PubackReason, PubrecReason, PubrelReason, PubcompReason, SubackReason, UnsubackReason, AuthReason
reason_exact!(reason_connect_exact, ConnectReason, [0x00, 0x80, 0x81, 0x82, 0x83, 0x84, 0x85, 0x86, 0x87, 0x88, 0x89, 0x8a, 0x8c, 0x90, 0x95, 0x97, 0x99, 0x9a, 0x9b, 0x9c, 0x9d, 0x9f]);
reason_exact!(reason_disconnect_exact, DisconnectReason, [0x00, 0x04, 0x80, 0x81, 0x82, 0x83, 0x87, 0x89, 0x8b, 0x8d, 0x8e, 0x8f, 0x90, 0x93, 0x94, 0x95, 0x96, 0x97, 0x98, 0x99, 0x9a, 0x9b, 0x9c, 0x9d, 0x9e, 0x9f, 0xa0, 0xa1, 0xa2]);
reason_exact!(reason_puback_exact, PubackReason, [0x00, 0x10, 0x80, 0x83, 0x87, 0x90, 0x91, 0x97, 0x99]);
reason_exact!(reason_pubrec_exact, PubrecReason, [0x00, 0x10, 0x80, 0x83, 0x87, 0x90, 0x91, 0x97, 0x99]);
reason_exact!(reason_pubrel_exact, PubrelReason, [0x00, 0x92]);
reason_exact!(reason_pubcomp_exact, PubcompReason, [0x00, 0x92]);
reason_exact!(reason_suback_exact, SubackReason, [0x00, 0x01, 0x02, 0x80, 0x83, 0x87, 0x8f, 0x91, 0x97, 0x9e, 0xa1, 0xa2]);
reason_exact!(reason_unsuback_exact, UnsubackReason, [0x00, 0x11, 0x80, 0x83, 0x87, 0x8f, 0x91]);
reason_exact!(reason_auth_exact, AuthReason, [0x00, 0x18, 0x19]);

//@ h name=prim_checked_exact props=C02 tier=quick cap=small to=300
//@ claim: the validity-checked primitive decoders are exact: bool accepts 0/1 only and yields that value; QoS accepts 0/1/2 and yields that level; NonZero<u8/u16/u32> accept every non-zero value and yield it unchanged, refusing zero
//@ bounds: arbitrary 4-byte buffers (all values of the decoded widths)
//@ funcs: <bool/QoS/NonZero<u8>/NonZero<u16>/NonZero<u32> as TryDecode>::try_decode
#[kani::proof]
#[kani::unwind(6)]
pub(crate) fn prim_checked_exact() {
    let b = any_bytes::<4>(4);
    match bool::try_decode(b.clone()) {
        Ok(v) => assert!(b[0] <= 1 && v == (b[0] == 1), "bool value"),
        Err(_) => assert!(b[0] > 1, "bool refuses only values above 1"),
    }
    match QoS::try_decode(b.clone()) {
        Ok(v) => assert!(b[0] <= 2 && v as u8 == b[0], "QoS value"),
        Err(_) => assert!(b[0] > 2, "QoS refuses only 3 and above"),
    }
    match <NonZero<u8>>::try_decode(b.clone()) {
        Ok(v) => assert!(v.get() == b[0] && b[0] != 0, "non-zero byte"),
        Err(_) => assert!(b[0] == 0, "only zero refused"),
    }
    let w16 = ((b[0] as u16) << 8) | b[1] as u16;
    match <NonZero<u16>>::try_decode(b.clone()) {
        Ok(v) => assert!(v.get() == w16 && w16 != 0, "non-zero two byte integer"),
        Err(_) => assert!(w16 == 0, "only zero refused"),
    }
    let w32 = ((b[0] as u32) << 24) | ((b[1] as u32) << 16) | ((b[2] as u32) << 8) | b[3] as u32;
    match <NonZero<u32>>::try_decode(b.clone()) {
        Ok(v) => assert!(v.get() == w32 && w32 != 0, "non-zero four byte integer"),
        Err(_) => assert!(w32 == 0, "only zero refused"),
    }
    kani::cover!(w16 == 0xffff, "maximum packet identifier");
    kani::cover!(b[0] == 0 && b[1] == 0, "zero identifier refused");
}
