//! L1 (C02): well-formed server packets, produced by the independent reference encoder
//! (refenc.rs) with concrete structure and symbolic values, are accepted by the real decoder and
//! every public accessor returns the encoded value; absent properties read as MQTT 5's defaults.
use crate::client::error::*;
use crate::client::*;
use crate::codec::*;
use crate::core::base_types::*;
use crate::core::utils::*;
use crate::verif_h::refenc::*;
use crate::QoS;
use crate::UserProperties;
use core::time::Duration;

fn ascii2() -> [u8; 2] {
    let s: [u8; 2] = kani::any();
    kani::assume(s[0] < 0x80 && s[1] < 0x80);
    s
}
fn ascii1() -> [u8; 1] {
    let s: [u8; 1] = kani::any();
    kani::assume(s[0] < 0x80);
    s
}
fn streq(a: Option<&str>, b: &[u8]) -> bool {
    match a {
        Some(s) => s.as_bytes() == b,
        None => false,
    }
}
fn users_are(u: &UserProperties, exp: &[(&[u8], &[u8])]) -> bool {
    if u.len() != exp.len() {
        return false;
    }
    let mut i = 0;
    for (k, v) in u.iter() {
        if i >= exp.len() || k.as_bytes() != exp[i].0 || v.as_bytes() != exp[i].1 {
            return false;
        }
        i += 1;
    }
    i == exp.len()
}
fn decode(w: &W) -> RxPacket {
    let r = RxPacket::try_decode(w.bytes());
    assert!(r.is_ok(), "a well-formed packet is accepted");
    r.ok().unwrap()
}

// --------------------------------------------------------------------------------------- CONNACK

/// part 0: no properties; 1: integer/flag properties; 2: string properties + user properties;
/// 3: part 1 in reverse order.  `err`: reason >= 0x80 (ConnectError) or < 0x80 (ConnectRsp).
/// Fields whose decoders can refuse a value (booleans, reason codes, QoS, non-zero integers) are
/// concrete here (`rb`, `flags`): a decoder outcome that depends on a symbolic value makes CBMC's
/// symbolic execution merge the "advanced" and "not advanced" decoder states, after which every
/// offset is an opaque expression (see DESIGN.md).  Their full value ranges are covered by the
/// prim_*_exact harnesses; plain integers, strings and binaries stay symbolic.
fn dec_connack_body(part: u8, rb: u8, flags: u8) {
    let err = rb >= 0x80;
    let sp = flags & 1 != 0;
    let (sei, tam, ska): (u32, u16, u16) = (kani::any(), kani::any(), kani::any());
    let (rm, mps): (u16, u32) = (if flags & 2 != 0 { 1 } else { 0xfffe }, if flags & 2 != 0 { 1 } else { 0xffff_fffe });
    let mq: u8 = (flags >> 2) & 1;
    let (ra, wsa, ssa) = (flags & 8 != 0, flags & 16 != 0, flags & 32 != 0);
    let (aci, rs, ri, sr, am, ad) = (ascii2(), ascii2(), ascii1(), ascii2(), ascii1(), kani::any::<[u8; 2]>());
    let (k0, v0, k1) = (ascii1(), ascii2(), ascii1());
    let mut p = W::begin(0x20);
    p.u8(sp as u8);
    p.u8(rb);
    let pa = p.props_begin();
    match part {
        1 => {
            p.p_four(17, sei);
            p.p_two(33, rm);
            p.p_byte(36, mq);
            p.p_byte(37, ra as u8);
            p.p_four(39, mps);
            p.p_two(34, tam);
            p.p_byte(40, wsa as u8);
            p.p_byte(41, 1);
            p.p_byte(42, ssa as u8);
            p.p_two(19, ska);
        }
        3 => {
            p.p_two(19, ska);
            p.p_byte(42, ssa as u8);
            p.p_byte(40, wsa as u8);
            p.p_two(34, tam);
            p.p_four(39, mps);
            p.p_byte(37, ra as u8);
            p.p_byte(36, mq);
            p.p_two(33, rm);
            p.p_four(17, sei);
        }
        2 => {
            p.p_pair(&k0, &v0);
            p.p_str(18, &aci);
            p.p_str(31, &rs);
            p.p_str(26, &ri);
            p.p_pair(&k1, &[]);
            p.p_str(28, &sr);
            p.p_str(21, &am);
            p.p_str(22, &ad);
        }
        5 => {
            p.p_two(33, rm);
            p.p_four(39, mps);
            p.p_str(31, &rs);
        }
        6 => {
            p.p_four(17, sei);
            p.p_pair(&k0, &v0);
        }
        7 => {
            p.p_byte(36, mq);
            p.p_str(28, &sr);
        }
        8 => {
            p.p_str(22, &ad);
        }
        _ => {}
    }
    p.props_end(pa);
    p.finish();
    let w = p;
    let connack = match decode(&w) {
        RxPacket::Connack(c) => c,
        _ => panic!("CONNACK decodes to the CONNACK variant"),
    };
    let ints = part == 1 || part == 3;
    let users: [(&[u8], &[u8]); 2] = [(&k0, &v0), (&k1, &[])];
    match ConnectRsp::try_from(connack) {
        Ok(r) => {
            assert!(!err, "reason < 0x80 yields ConnectRsp");
            assert!(r.session_present() == sp, "session present");
            assert!(r.reason() as u8 == rb, "reason");
            if part <= 3 {
                assert!(r.session_expiry_interval() == if ints { Some(Duration::from_secs(sei as u64)) } else { None }, "session expiry interval");
                assert!(r.receive_maximum() == if ints { rm } else { 65535 }, "receive maximum (default 65535)");
                assert!(r.maximum_qos() as u8 == if ints { mq } else { 2 }, "maximum QoS (default 2)");
                assert!(r.retain_available() == if ints { ra } else { true }, "retain available (default true)");
                assert!(r.maximum_packet_size() == if ints { Some(mps) } else { None }, "maximum packet size");
                assert!(r.topic_alias_maximum() == if ints { tam } else { 0 }, "topic alias maximum (default 0)");
                assert!(r.wildcard_subscription_available() == if ints { wsa } else { true }, "wildcard subscription available (default true)");
                assert!(r.subscription_identifier_available(), "subscription identifiers available (default true)");
                assert!(r.shared_subscription_available() == if ints { ssa } else { true }, "shared subscription available (default true)");
                assert!(r.server_keep_alive() == if ints { Some(Duration::from_secs(ska as u64)) } else { None }, "server keep alive");
            }
            if part == 5 {
                assert!(r.receive_maximum() == rm && r.maximum_packet_size() == Some(mps), "integers before the string");
                assert!(streq(r.reason_string(), &rs), "reason string");
            } else if part == 6 {
                assert!(r.session_expiry_interval() == Some(Duration::from_secs(sei as u64)), "integer before the user property");
                assert!(users_are(r.user_properties(), &[(&k0, &v0)]), "user property");
            } else if part == 7 {
                assert!(r.maximum_qos() as u8 == mq && streq(r.server_reference(), &sr), "maximum QoS and server reference");
            } else if part == 8 {
                assert!(r.authentication_data() == Some(&ad[..]), "authentication data");
            } else if part == 2 {
                assert!(streq(r.assigned_client_identifier(), &aci), "assigned client identifier");
                assert!(streq(r.reason_string(), &rs), "reason string");
                assert!(streq(r.response_information(), &ri), "response information");
                assert!(streq(r.server_reference(), &sr), "server reference");
                assert!(streq(r.authentication_method(), &am), "authentication method");
                assert!(r.authentication_data() == Some(&ad[..]), "authentication data");
                assert!(users_are(r.user_properties(), &users), "user properties in order, repeated keys kept");
            } else {
                assert!(r.assigned_client_identifier().is_none() && r.reason_string().is_none() && r.response_information().is_none(), "absent strings read as None");
                assert!(r.server_reference().is_none() && r.authentication_method().is_none() && r.authentication_data().is_none(), "absent strings read as None");
                assert!(r.user_properties().is_empty(), "no user properties");
            }
            kani::cover!(true, "opt: ConnectRsp accessors compared");
            core::mem::forget(r);
        }
        Err(e) => {
            assert!(err, "reason >= 0x80 yields ConnectError");
            assert!(e.reason() as u8 == rb, "ConnectError reason");
            if part == 5 {
                assert!(streq(e.reason_string(), &rs), "ConnectError reason string");
            } else if part == 7 {
                assert!(streq(e.server_reference(), &sr), "ConnectError server reference");
            } else if part == 6 {
                assert!(users_are(e.user_properties(), &[(&k0, &v0)]), "ConnectError user property");
            } else if part == 8 {
                assert!(e.reason_string().is_none(), "absent");
            } else if part == 2 {
                assert!(streq(e.reason_string(), &rs), "ConnectError reason string");
                assert!(streq(e.server_reference(), &sr), "ConnectError server reference");
                assert!(users_are(e.user_properties(), &users), "ConnectError user properties");
            } else {
                assert!(e.reason_string().is_none() && e.server_reference().is_none() && e.user_properties().is_empty(), "absent");
            }
            kani::cover!(true, "opt: ConnectError accessors compared");
            core::mem::forget(e);
        }
    }
}

macro_rules! wf {
    ($name:ident, $unwind:expr, $body:expr) => {
        #[kani::proof]
        #[kani::unwind($unwind)]
        #[kani::stub(core::str::from_utf8, crate::verif_h::sym::utf8_assume_ascii)]
        #[kani::stub(<u16 as crate::core::utils::TryDecode>::try_decode, crate::verif_h::sym::u16_ref)]
        pub(crate) fn $name() {
            $body;
        }
    };
}

//@ h name=dec_connack_none_ok props=C02,C13 tier=quick cap=small to=900
//@ h name=dec_connack_ints_ok props=C02,C13 tier=quick cap=small to=900
//@ h name=dec_connack_rev_ok props=C02,C13 tier=quick cap=small to=900
//@ h name=dec_connack_none_err props=C02,C13 tier=quick cap=small to=900
//@ h name=dec_connack_str_ok props=C02,C13 tier=thorough cap=small to=2400
//@ h name=dec_connack_str_err props=C02,C13 tier=thorough cap=small to=2400
//@ h name=dec_connack_user_ok props=C02,C13 tier=off cap=small to=2400
//@ h name=dec_connack_sref_err props=C02,C13 tier=thorough cap=small to=2400
//@ h name=dec_connack_adata_ok props=C02,C13 tier=off cap=small to=2400
//@ claim: a well-formed CONNACK (reference encoder) is accepted; reason < 0x80 yields ConnectRsp and reason >= 0x80 ConnectError; every accessor returns the encoded value and absent properties read as MQTT 5's defaults (Receive Maximum 65535, Maximum QoS 2, Retain/Wildcard/Shared/Subscription-Identifier Available true, Topic Alias Maximum 0)
//@ bounds: property sets {none; the ten integer/flag properties in canonical order; the same reversed (without subscription-identifier-available); integers followed by ONE string / binary / user property placed last (a length-carrying property makes every later offset an opaque expression for CBMC, see DESIGN.md)}; plain integers, strings (1-2 ASCII bytes) and binaries symbolic; validity-checked fields (session-present and the boolean properties, maximum QoS, the non-zero Receive Maximum / Maximum Packet Size at their extremes 1 and max-1, reason codes 0x00 / 0x80 / 0x9c / 0x9f) concrete per harness, their full ranges being covered by the prim_*_exact harnesses; Subscription Identifier Available = 0 excluded (documented assertion)
//@ assume: core::str::from_utf8 == Ok on ASCII (non-branching stub); <u16 as TryDecode>::try_decode replaced by its exact model (prim_u16_exact)
//@ funcs: RxPacket::try_decode, ConnackRx::try_decode, ConnackRxBuilder::build, Property::try_decode, ConnectRsp::try_from and all ConnectRsp accessors, ConnectError accessors, UserProperties::iter/len
wf!(dec_connack_none_ok, 6, dec_connack_body(0, 0x00, 0b000001));
wf!(dec_connack_ints_ok, 12, dec_connack_body(1, 0x00, 0b101010));
wf!(dec_connack_rev_ok, 11, dec_connack_body(3, 0x00, 0b010101));
wf!(dec_connack_none_err, 6, dec_connack_body(0, 0x80, 0b000000));
wf!(dec_connack_str_ok, 6, dec_connack_body(5, 0x00, 0b000010));
wf!(dec_connack_str_err, 6, dec_connack_body(5, 0x9f, 0b000000));
wf!(dec_connack_user_ok, 6, dec_connack_body(6, 0x00, 0b000001));
wf!(dec_connack_sref_err, 6, dec_connack_body(7, 0x9c, 0b000100));
wf!(dec_connack_adata_ok, 6, dec_connack_body(8, 0x00, 0b000000));

// ------------------------------------------------------------------------------------------ AUTH

/// form 0: remaining length 0; 1: reason + method + data; 2: + reason string + user property;
/// 3: method only (authentication data is optional in a server AUTH).
fn dec_auth_body(form: u8, rb: u8) {
    let (am, ad, rs, k0, v0) = (ascii2(), kani::any::<[u8; 2]>(), ascii2(), ascii1(), ascii1());
    let mut p = W::begin(0xf0);
    if form != 0 {
        p.u8(rb);
        let pa = p.props_begin();
        if form == 2 {
            p.p_str(31, &rs);
        }
        p.p_str(21, &am);
        if form != 3 {
            p.p_str(22, &ad);
        }
        if form == 2 {
            p.p_pair(&k0, &v0);
        }
        p.props_end(pa);
    }
    p.finish();
    let w = p;
    let auth = match decode(&w) {
        RxPacket::Auth(a) => a,
        _ => panic!("AUTH decodes to the AUTH variant"),
    };
    let r = AuthRsp::try_from(auth);
    assert!(r.is_ok(), "every AUTH reason code is < 0x80: AuthRsp");
    let r = r.ok().unwrap();
    assert!(r.reason() as u8 == if form == 0 { 0 } else { rb }, "reason (Success for the shortened form)");
    if form == 0 {
        assert!(r.authentication_method().is_none() && r.authentication_data().is_none() && r.reason_string().is_none() && r.user_properties().is_empty(), "shortened form: nothing else");
    } else {
        assert!(streq(r.authentication_method(), &am), "authentication method");
        assert!(r.authentication_data() == if form == 3 { None } else { Some(&ad[..]) }, "authentication data");
        if form == 2 {
            assert!(streq(r.reason_string(), &rs), "reason string");
            assert!(users_are(r.user_properties(), &[(&k0, &v0)]), "user property");
        } else {
            assert!(r.reason_string().is_none() && r.user_properties().is_empty(), "absent");
        }
    }
    kani::cover!(true, "AuthRsp accessors compared");
    core::mem::forget(r);
}

//@ h name=dec_auth_short props=C02,C13 tier=quick cap=small to=600
//@ h name=dec_auth_full props=C02,C13 tier=off cap=small to=3000
//@ h name=dec_auth_method_only props=C02,C13 tier=off cap=small to=2400
//@ claim: a well-formed server AUTH is accepted and AuthRsp's accessors return the encoded reason, method, data, reason string and user properties; remaining length 0 reads as Success with no properties; authentication data is optional
//@ bounds: forms {remaining length 0; reason+method+data; reason string+method+data+user property; method only}; strings/binaries symbolic (2 bytes); reason code concrete per harness (0x00 / 0x18 / 0x19)
//@ funcs: AuthRx::try_decode, AuthRxBuilder::build/validate, AuthRsp::try_from and accessors
wf!(dec_auth_short, 6, dec_auth_body(0, 0));
wf!(dec_auth_full, 6, dec_auth_body(1, 0x18));
wf!(dec_auth_method_only, 6, dec_auth_body(3, 0x19));

// --------------------------------------------------------------------------------------- PUBLISH

fn dec_publish_body(qos: u8, part: u8, dup: bool, retain: bool, pid: u16) {
    dec_publish_body2(qos, part, dup, retain, pid, 1)
}
/// `sid`: concrete subscription identifier (its encoded length must be concrete, §2.3 of DESIGN.md);
/// payload format indicator and topic alias are validity-checked fields and concrete as well.
fn dec_publish_body2(qos: u8, part: u8, dup: bool, retain: bool, pid: u16, sid: u32) {
    let topic = ascii2();
    let mei: u32 = kani::any();
    let (pfi, ta): (bool, u16) = (pid & 1 != 0, if pid & 2 != 0 { 1 } else { 0xffff });
    let (rt, cd, ct, k0, v0) = (ascii2(), kani::any::<[u8; 2]>(), ascii1(), ascii1(), ascii1());
    let payload: [u8; 3] = kani::any();
    let mut p = W::begin(0x30 | ((dup as u8) << 3) | (qos << 1) | retain as u8);
    p.lp(&topic);
    if qos > 0 {
        p.u16(pid);
    }
    let pa = p.props_begin();
    match part {
        1 => {
            p.p_byte(1, pfi as u8);
            p.p_four(2, mei);
            p.p_two(35, ta);
            p.p_var(11, sid);
        }
        2 => {
            p.p_pair(&k0, &v0);
            p.p_str(8, &rt);
            p.p_str(9, &cd);
            p.p_str(3, &ct);
            p.p_pair(&k0, &[]);
            p.p_var(11, sid);
        }
        _ => {}
    }
    p.props_end(pa);
    let plen = if part == 0 { 0 } else { 3 };
    let mut i = 0;
    while i < plen {
        p.u8(payload[i]);
        i += 1;
    }
    p.finish();
    let w = p;
    let publish = match decode(&w) {
        RxPacket::Publish(x) => x,
        _ => panic!("PUBLISH decodes to the PUBLISH variant"),
    };
    assert!(publish.packet_identifier.map(|x| x.get()) == if qos > 0 { Some(pid) } else { None }, "packet identifier (used for the acknowledgement)");
    let d = PublishData::from(publish);
    assert!(d.dup() == dup && d.retain() == retain && d.qos() as u8 == qos, "DUP, retain, QoS");
    assert!(d.topic_name().as_bytes() == &topic[..], "topic name");
    assert!(d.payload() == &payload[..plen], "payload");
    assert!(d.payload_format_indicator() == if part == 1 { Some(pfi) } else { None }, "payload format indicator");
    assert!(d.message_expiry_interval() == if part == 1 { Some(Duration::from_secs(mei as u64)) } else { None }, "message expiry interval");
    assert!(d.topic_alias() == if part == 1 { Some(ta) } else { None }, "topic alias");
    assert!(d.subscription_identifier() == if part == 0 { None } else { Some(sid) }, "subscription identifier");
    if part == 2 {
        assert!(streq(d.response_topic(), &rt), "response topic");
        assert!(d.correlation_data() == Some(&cd[..]), "correlation data");
        assert!(streq(d.content_type(), &ct), "content type");
        assert!(users_are(d.user_properties(), &[(&k0, &v0), (&k0, &[])]), "user properties, repeated key kept, in order");
    } else {
        assert!(d.response_topic().is_none() && d.correlation_data().is_none() && d.content_type().is_none() && d.user_properties().is_empty(), "absent");
    }
    kani::cover!(true, "PublishData accessors compared");
    core::mem::forget(d);
}

//@ h name=dec_publish_q0_none props=C02 tier=quick cap=small to=900
//@ h name=dec_publish_q1_none props=C02 tier=quick cap=small to=900
//@ h name=dec_publish_q2_none props=C02 tier=quick cap=small to=900
//@ h name=dec_publish_q1_ints props=C02 tier=thorough cap=small to=1500 mem=24
//@ h name=dec_publish_q2_ints_sid2 props=C02 tier=thorough cap=small to=1500 mem=24
//@ h name=dec_publish_q0_ints_sid4 props=C02 tier=thorough cap=small to=1500 mem=24
//@ claim: a well-formed inbound PUBLISH is accepted and PublishData's accessors return the encoded DUP/retain/QoS/topic/payload/properties; the packet identifier kept for the acknowledgement is the encoded one; absent properties read as None
//@ bounds: QoS concrete per harness; property sets {none; payload format indicator + message expiry + topic alias + subscription identifier}; topic (2 ASCII bytes), message expiry and payload (3 bytes) symbolic; DUP/retain/QoS, packet identifier, payload format indicator, topic alias and the subscription identifier (127, 16383, 268435455: one-, two- and four-byte encodings) concrete per harness; string/binary/user properties of an inbound PUBLISH are not covered; values symbolic (strings 1-2 ASCII bytes, payload 3 arbitrary bytes, subscription identifier 1..=268435455)
//@ funcs: PublishRx::try_decode, PublishRxBuilder::build/validate, PublishData::from and accessors
wf!(dec_publish_q0_none, 6, dec_publish_body(0, 0, false, true, 1));
wf!(dec_publish_q1_none, 6, dec_publish_body(1, 0, true, false, 0xffff));
wf!(dec_publish_q2_none, 6, dec_publish_body(2, 0, false, false, 0x0100));
wf!(dec_publish_q1_ints, 8, dec_publish_body2(1, 1, false, true, 0x0101, 127));
wf!(dec_publish_q2_ints_sid2, 8, dec_publish_body2(2, 1, true, true, 0xfffe, 16383));
wf!(dec_publish_q0_ints_sid4, 8, dec_publish_body2(0, 1, false, false, 3, 0x0fff_ffff));

// ------------------------------------------------------------------------------ PUBACK family

/// form 2: identifier only; 3: + reason; 4: + empty property block; 5: + reason string + user property
macro_rules! dec_ack_fn {
    ($fname:ident, $reason:ty, $variant:path, $hdr:expr, $err:ty) => {
        fn $fname(form: u8, pid: u16, rb: u8) {
            let (rs, k0, v0) = (ascii2(), ascii1(), ascii2());
            let mut p = W::begin($hdr);
            p.u16(pid);
            if form >= 3 {
                p.u8(rb);
            }
            if form >= 4 {
                let pa = p.props_begin();
                if form == 5 {
                    p.p_str(31, &rs);
                }
                if form == 6 {
                    p.p_pair(&k0, &v0);
                }
                p.props_end(pa);
            }
            p.finish();
            let w = p;
            let ack = match decode(&w) {
                $variant(a) => a,
                _ => panic!("acknowledgement decodes to its own variant"),
            };
            assert!(ack.packet_identifier.get() == pid, "packet identifier");
            assert!(ack.reason as u8 == if form == 2 { 0 } else { rb }, "reason (Success when omitted)");
            let e = <$err>::from(ack);
            assert!(e.reason() as u8 == if form == 2 { 0 } else { rb }, "error accessor: reason");
            if form == 5 {
                assert!(streq(e.reason_string(), &rs) && e.user_properties().is_empty(), "reason string");
            } else if form == 6 {
                assert!(users_are(e.user_properties(), &[(&k0, &v0)]) && e.reason_string().is_none(), "user property");
            } else {
                assert!(e.reason_string().is_none() && e.user_properties().is_empty(), "absent");
            }
            kani::cover!(true, "acknowledgement accessors compared");
            core::mem::forget(e);
        }
    };
}
dec_ack_fn!(dec_puback_body, PubackReason, RxPacket::Puback, 0x40, PubackError);
dec_ack_fn!(dec_pubrec_body, PubrecReason, RxPacket::Pubrec, 0x50, PubrecError);
dec_ack_fn!(dec_pubcomp_body, PubcompReason, RxPacket::Pubcomp, 0x70, PubcompError);

fn dec_pubrel_body(form: u8, pid: u16, rb: u8) {
    let mut p = W::begin(0x62);
    p.u16(pid);
    if form >= 3 {
        p.u8(rb);
    }
    if form >= 4 {
        p.u8(0);
    }
    p.finish();
    let w = p;
    let ack = match decode(&w) {
        RxPacket::Pubrel(a) => a,
        _ => panic!("PUBREL decodes to its own variant"),
    };
    assert!(ack.packet_identifier.get() == pid, "packet identifier");
    assert!(ack.reason as u8 == if form == 2 { 0 } else { rb }, "reason (Success when omitted)");
    kani::cover!(true, "PUBREL fields compared");
    core::mem::forget(ack);
}

//@ h name=dec_puback_f2 props=C02 tier=quick cap=small to=600
//@ h name=dec_puback_f3 props=C02 tier=quick cap=small to=600
//@ h name=dec_puback_f4 props=C02 tier=quick cap=small to=600
//@ h name=dec_puback_f5 props=C02 tier=off cap=small to=2400
//@ h name=dec_pubrec_f3 props=C02 tier=quick cap=small to=600
//@ h name=dec_pubrec_f6 props=C02 tier=off cap=small to=2400
//@ h name=dec_pubcomp_f2 props=C02 tier=quick cap=small to=600
//@ h name=dec_pubcomp_f4 props=C02 tier=quick cap=small to=600
//@ h name=dec_pubrel_f2 props=C02 tier=quick cap=small to=600
//@ h name=dec_pubrel_f4 props=C02 tier=thorough cap=small to=600
//@ claim: well-formed PUBACK/PUBREC/PUBREL/PUBCOMP in all shortened and full forms are accepted; packet identifier, reason (Success when omitted), reason string and user properties read back through the public error accessors equal the encoded values
//@ bounds: forms {remaining length 2; 3; 4 with empty property block; with a reason string; with a user property}; packet identifier and reason code concrete per harness (boundary identifiers 1, 0xff, 0x100, 0xffff..., reasons on both sides of 0x80; full ranges in prim_*_exact); strings 1-2 ASCII bytes symbolic
//@ funcs: AckRx::try_decode for the four reason types, AckRxBuilder::build, AckError::from and accessors
wf!(dec_puback_f2, 6, dec_puback_body(2, 1, 0));
wf!(dec_puback_f3, 6, dec_puback_body(3, 0xffff, 0x10));
wf!(dec_puback_f4, 6, dec_puback_body(4, 0x0100, 0x80));
wf!(dec_puback_f5, 6, dec_puback_body(5, 0x00ff, 0x99));
wf!(dec_pubrec_f3, 6, dec_pubrec_body(3, 2, 0x80));
wf!(dec_pubrec_f6, 6, dec_pubrec_body(6, 0x8000, 0x10));
wf!(dec_pubcomp_f2, 6, dec_pubcomp_body(2, 0xfffe, 0));
wf!(dec_pubcomp_f4, 6, dec_pubcomp_body(4, 3, 0x92));
wf!(dec_pubrel_f2, 6, dec_pubrel_body(2, 0x1234, 0));
wf!(dec_pubrel_f4, 6, dec_pubrel_body(4, 1, 0x92));

// ------------------------------------------------------------------------- SUBACK / UNSUBACK

fn dec_suback_body(n: usize, props: bool, pid: u16, codes: [u8; 3]) {
    let (rs, k0, v0) = (ascii2(), ascii1(), ascii1());
    let mut p = W::begin(0x90);
    p.u16(pid);
    let pa = p.props_begin();
    if props {
        p.p_str(31, &rs);
    }
    p.props_end(pa);
    let mut i = 0;
    while i < n {
        p.u8(codes[i]);
        i += 1;
    }
    p.finish();
    let w = p;
    let suback = match decode(&w) {
        RxPacket::Suback(a) => a,
        _ => panic!("SUBACK decodes to its own variant"),
    };
    assert!(suback.packet_identifier.get() == pid, "packet identifier");
    let (_s, receiver) = futures::channel::mpsc::unbounded();
    let r = SubscribeRsp { packet: suback, receiver };
    assert!(r.payload().len() == n, "one reason code per topic filter");
    let mut i = 0;
    while i < n {
        assert!(r.payload()[i] as u8 == codes[i], "reason code, in order");
        i += 1;
    }
    if props {
        assert!(streq(r.reason_string(), &rs) && r.user_properties().is_empty(), "reason string");
    } else {
        assert!(r.reason_string().is_none() && r.user_properties().is_empty(), "absent");
    }
    kani::cover!(true, "SubscribeRsp accessors compared");
    core::mem::forget(r);
}

fn dec_unsuback_body(n: usize, props: bool, pid: u16, codes: [u8; 3]) {
    let (rs, k0, v0) = (ascii2(), ascii1(), ascii1());
    let mut p = W::begin(0xb0);
    p.u16(pid);
    let pa = p.props_begin();
    if props {
        p.p_pair(&k0, &v0);
    }
    p.props_end(pa);
    let mut i = 0;
    while i < n {
        p.u8(codes[i]);
        i += 1;
    }
    p.finish();
    let w = p;
    let unsuback = match decode(&w) {
        RxPacket::Unsuback(a) => a,
        _ => panic!("UNSUBACK decodes to its own variant"),
    };
    assert!(unsuback.packet_identifier.get() == pid, "packet identifier");
    let r = UnsubscribeRsp { packet: unsuback };
    assert!(r.payload().len() == n, "one reason code per topic filter");
    let mut i = 0;
    while i < n {
        assert!(r.payload()[i] as u8 == codes[i], "reason code, in order");
        i += 1;
    }
    if props {
        assert!(r.reason_string().is_none() && users_are(r.user_properties(), &[(&k0, &v0)]), "user property");
    } else {
        assert!(r.reason_string().is_none() && r.user_properties().is_empty(), "absent");
    }
    kani::cover!(true, "UnsubscribeRsp accessors compared");
    core::mem::forget(r);
}

//@ h name=dec_suback_1 props=C02 tier=quick cap=small to=900
//@ h name=dec_suback_3 props=C02 tier=quick cap=small to=900
//@ h name=dec_suback_2p props=C02 tier=off cap=small to=2400
//@ h name=dec_unsuback_2 props=C02 tier=quick cap=small to=900
//@ h name=dec_unsuback_1p props=C02 tier=off cap=small to=2400
//@ h name=dec_pingresp props=C02 tier=quick cap=small to=600
//@ claim: well-formed SUBACK/UNSUBACK are accepted and SubscribeRsp/UnsubscribeRsp expose the encoded reason codes in order, the reason string and the user properties; PINGRESP (D0 00) is accepted
//@ bounds: 1..=3 reason codes, packet identifier and codes concrete per harness (full ranges in prim_*_exact), with or without one property
//@ funcs: SubackRx::try_decode, UnsubackRx::try_decode, PingrespRx::try_decode, SubscribeRsp/UnsubscribeRsp accessors
wf!(dec_suback_1, 6, dec_suback_body(1, false, 1, [0x02, 0, 0]));
wf!(dec_suback_3, 6, dec_suback_body(3, false, 0xffff, [0x00, 0x80, 0xa2]));
wf!(dec_suback_2p, 6, dec_suback_body(2, true, 0x0100, [0x01, 0x97, 0]));
wf!(dec_unsuback_2, 6, dec_unsuback_body(2, false, 0x00ff, [0x11, 0x91, 0]));
wf!(dec_unsuback_1p, 6, dec_unsuback_body(1, true, 2, [0x00, 0, 0]));
wf!(dec_pingresp, 6, {
    let mut w = W::begin(0xd0);
    w.finish();
    assert!(matches!(decode(&w), RxPacket::Pingresp(_)), "PINGRESP decodes to its own variant");
    kani::cover!(true, "PINGRESP decoded");
});

// ------------------------------------------------------------------------------------ DISCONNECT

/// form 0: remaining length 0; 1: reason only; 2: reason + empty properties; 3: reason string,
/// server reference, user property
fn dec_disconnect_body(form: u8, rb: u8) {
    let (rs, sr, k0, v0) = (ascii2(), ascii2(), ascii1(), ascii1());
    let mut p = W::begin(0xe0);
    if form >= 1 {
        p.u8(rb);
    }
    if form >= 2 {
        let pa = p.props_begin();
        if form == 3 {
            p.p_str(31, &rs);
        }
        if form == 4 {
            p.p_str(28, &sr);
        }
        p.props_end(pa);
    }
    p.finish();
    let w = p;
    let d = match decode(&w) {
        RxPacket::Disconnect(d) => d,
        _ => panic!("DISCONNECT decodes to its own variant"),
    };
    let e = match MqttError::from(d) {
        MqttError::Disconnected(e) => e,
        _ => panic!("a server DISCONNECT maps to MqttError::Disconnected"),
    };
    assert!(e.reason() as u8 == if form == 0 { 0 } else { rb }, "reason (Normal disconnection when omitted)");
    assert!(e.session_expiry_interval() == Duration::from_secs(0), "a server DISCONNECT carries no session expiry interval: reads as 0");
    if form == 3 {
        assert!(streq(e.reason_string(), &rs) && e.server_reference().is_none(), "reason string");
    } else if form == 4 {
        assert!(streq(e.server_reference(), &sr) && e.reason_string().is_none(), "server reference");
    } else {
        assert!(e.reason_string().is_none() && e.server_reference().is_none() && e.user_properties().is_empty(), "absent");
    }
    kani::cover!(true, "Disconnected accessors compared");
    core::mem::forget(e);
}

//@ h name=dec_disconnect_f0 props=C02,C13 tier=quick cap=small to=600
//@ h name=dec_disconnect_f1 props=C02,C13 tier=quick cap=small to=600
//@ h name=dec_disconnect_f2 props=C02,C13 tier=quick cap=small to=600
//@ h name=dec_disconnect_f3 props=C02,C13 tier=off cap=small to=2400
//@ h name=dec_disconnect_f4 props=C02,C13 tier=off cap=small to=2400
//@ claim: a well-formed server DISCONNECT in every form (remaining length 0, reason only, empty property block, with properties) is accepted and the Disconnected error exposes the encoded reason (0 when omitted), reason string, server reference and user properties
//@ bounds: five forms; reason code concrete per harness (0x00, 0x8b, 0x9d, 0xa2; full range in prim_*_exact); strings 1-2 ASCII bytes symbolic
//@ funcs: DisconnectRx::try_decode, DisconnectRxBuilder::build, MqttError::from(DisconnectRx), Disconnected accessors
wf!(dec_disconnect_f0, 6, dec_disconnect_body(0, 0));
wf!(dec_disconnect_f1, 6, dec_disconnect_body(1, 0x8b));
wf!(dec_disconnect_f2, 6, dec_disconnect_body(2, 0x00));
wf!(dec_disconnect_f3, 6, dec_disconnect_body(3, 0xa2));
wf!(dec_disconnect_f4, 6, dec_disconnect_body(4, 0x9d));
