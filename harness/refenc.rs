//! Independent reference *encoder* for server-to-client packets (oracle input of the C02/C13
//! harnesses).  Fixed-size buffer, explicit indices, no code shared with poster.  Structure
//! (which fields, which order, which lengths) is always concrete in the harnesses; values are
//! symbolic.

// <= 64 so that CBMC keeps the array field-sensitive and concrete contents (packet type, property
// identifiers, lengths) stay constants during symbolic execution
pub(crate) const WCAP: usize = 64;

#[derive(Clone, Copy)]
pub(crate) struct W {
    pub(crate) b: [u8; WCAP],
    pub(crate) n: usize,
}

impl W {
    pub(crate) fn new() -> W {
        W { b: [0; WCAP], n: 0 }
    }
    pub(crate) fn u8(&mut self, v: u8) {
        assert!(self.n < WCAP, "verif bound: reference encoder buffer");
        self.b[self.n] = v;
        self.n += 1;
    }
    pub(crate) fn u16(&mut self, v: u16) {
        self.u8((v >> 8) as u8);
        self.u8(v as u8);
    }
    pub(crate) fn u32(&mut self, v: u32) {
        self.u16((v >> 16) as u16);
        self.u16(v as u16);
    }
    /// MQTT variable byte integer (1.5.5), minimal form.
    pub(crate) fn varint(&mut self, v: u32) {
        let mut rest = v;
        let mut i = 0;
        while i < 4 {
            let mut b = (rest % 128) as u8;
            rest /= 128;
            if rest > 0 {
                b |= 0x80;
            }
            self.u8(b);
            if rest == 0 {
                return;
            }
            i += 1;
        }
    }
    pub(crate) fn raw(&mut self, s: &[u8]) {
        let mut i = 0;
        while i < s.len() {
            self.u8(s[i]);
            i += 1;
        }
    }
    /// two byte length + content
    pub(crate) fn lp(&mut self, s: &[u8]) {
        self.u16(s.len() as u16);
        self.raw(s);
    }
    pub(crate) fn append(&mut self, o: &W) {
        self.raw(&o.b[..o.n]);
    }
    // properties
    pub(crate) fn p_byte(&mut self, id: u8, v: u8) {
        self.u8(id);
        self.u8(v);
    }
    pub(crate) fn p_two(&mut self, id: u8, v: u16) {
        self.u8(id);
        self.u16(v);
    }
    pub(crate) fn p_four(&mut self, id: u8, v: u32) {
        self.u8(id);
        self.u32(v);
    }
    pub(crate) fn p_var(&mut self, id: u8, v: u32) {
        self.u8(id);
        self.varint(v);
    }
    pub(crate) fn p_str(&mut self, id: u8, s: &[u8]) {
        self.u8(id);
        self.lp(s);
    }
    pub(crate) fn p_pair(&mut self, k: &[u8], v: &[u8]) {
        self.u8(38);
        self.lp(k);
        self.lp(v);
    }
    pub(crate) fn bytes(&self) -> bytes::Bytes {
        // leak the array only (64 elements: still field-sensitive in CBMC, so the concrete bytes
        // stay constants; leaking the whole struct loses them)
        let leaked: &'static [u8; WCAP] = Box::leak(Box::new(self.b));
        bytes::Bytes::from_static(&leaked[..self.n])
    }
}

impl W {
    /// Starts a packet: fixed header byte and a one byte remaining-length placeholder (all packets
    /// built by the harnesses are shorter than 128 bytes).  No copying: contents written at
    /// concrete indices stay constants for the symbolic execution.
    pub(crate) fn begin(hdr: u8) -> W {
        let mut w = W::new();
        w.u8(hdr);
        w.u8(0);
        w
    }
    /// Starts a property block: returns the index of its one byte length placeholder.
    pub(crate) fn props_begin(&mut self) -> usize {
        let at = self.n;
        self.u8(0);
        at
    }
    pub(crate) fn props_end(&mut self, at: usize) {
        let len = self.n - at - 1;
        assert!(len < 128, "verif bound: property block shorter than 128 bytes");
        self.b[at] = len as u8;
    }
    pub(crate) fn finish(&mut self) {
        let len = self.n - 2;
        assert!(len < 128, "verif bound: packet shorter than 130 bytes");
        self.b[1] = len as u8;
    }
}
