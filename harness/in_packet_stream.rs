// Included at the end of src/io/packet_stream.rs (scratch copy only): L2 harnesses on the framing
// state machine `RxPacketStream::poll_next` and on `TxPacketStream::write`.
#[cfg(kani)]
mod verif_in_packet_stream {
    use super::*;
    use core::sync::atomic::{AtomicU64, AtomicUsize, Ordering};

    pub(crate) const NDATA: usize = 4;

    /// Transport mock.  Every `poll_read` picks (symbolically, at call time) among the outcomes the
    /// AsyncRead contract allows: `Pending` (the waker is registered: flag), `Ok(n)` with
    /// 1 <= n <= min(bytes still to come, buf.len()), and, once all bytes were delivered,
    /// `Pending` forever or end-of-stream (`Ok(0)`) or an error, as fixed by `end`.
    pub(crate) struct MockRx {
        pub(crate) data: [u8; NDATA],
        pub(crate) len: usize,
        pub(crate) pos: usize,
        /// 0: stays open (Pending) after the last byte; 1: Ok(0); 2: Err
        pub(crate) end: u8,
        pub(crate) may_pend_early: bool,
        /// the reader returns Pending right after every successful read (at most one chunk per
        /// poll of the stream): keeps poll_next's self-recursion shallow for the solver
        pub(crate) one_read_per_poll: bool,
        pub(crate) just_read: bool,
        pub(crate) registered: bool,
        pub(crate) signalled_end: bool,
        pub(crate) calls: usize,
        pub(crate) zero_len_reads: usize,
    }

    impl AsyncRead for MockRx {
        fn poll_read(mut self: Pin<&mut Self>, _cx: &mut Context<'_>, buf: &mut [u8]) -> Poll<io::Result<usize>> {
            self.calls += 1;
            if buf.is_empty() {
                // reading into an empty buffer yields Ok(0) whatever the stream state: the caller
                // must not take that for end-of-stream
                self.zero_len_reads += 1;
                return Poll::Ready(Ok(0));
            }
            let avail = self.len - self.pos;
            if avail == 0 && self.one_read_per_poll && self.just_read {
                self.registered = true;
                self.just_read = false;
                return Poll::Pending;
            }
            if avail == 0 {
                match self.end {
                    0 => {
                        self.registered = true;
                        return Poll::Pending;
                    }
                    1 => {
                        self.signalled_end = true;
                        return Poll::Ready(Ok(0));
                    }
                    _ => {
                        self.signalled_end = true;
                        return Poll::Ready(Err(io::Error::from(io::ErrorKind::ConnectionReset)));
                    }
                }
            }
            if (self.one_read_per_poll && self.just_read) || (self.may_pend_early && kani::any::<bool>()) {
                self.registered = true;
                self.just_read = false;
                return Poll::Pending;
            }
            let n: usize = kani::any();
            kani::assume(n >= 1 && n <= avail && n <= buf.len());
            let mut i = 0;
            while i < n {
                buf[i] = self.data[self.pos + i];
                i += 1;
            }
            self.pos += n;
            self.just_read = true;
            Poll::Ready(Ok(n))
        }
    }

    // ---- recording stub for the decoder: L2 is about WHICH byte ranges reach the decoder ----
    pub(crate) const MAXF: usize = 2;
    static N_FRAMES: AtomicUsize = AtomicUsize::new(0);
    static F_LEN: [AtomicUsize; MAXF] = [const { AtomicUsize::new(0) }; MAXF];
    static F_HEAD: [AtomicU64; MAXF] = [const { AtomicU64::new(0) }; MAXF];

    fn pack(b: &[u8]) -> u64 {
        let mut v = 0u64;
        let mut i = 0;
        while i < NDATA {
            v = (v << 8) | if i < b.len() { b[i] as u64 } else { 0 };
            i += 1;
        }
        v
    }

    pub(crate) fn decode_recorder(bytes: bytes::Bytes) -> Result<RxPacket, CodecError> {
        let k = N_FRAMES.load(Ordering::Relaxed);
        if k < MAXF {
            F_LEN[k].store(bytes.len(), Ordering::Relaxed);
            F_HEAD[k].store(pack(&bytes[..]), Ordering::Relaxed);
        }
        N_FRAMES.store(k + 1, Ordering::Relaxed);
        // what is returned is irrelevant for framing; the decoders have their own harnesses
        if bytes.len() >= 1 && bytes[0] == 0xd0 {
            Ok(RxPacket::Pingresp(crate::codec::PingrespRx {}))
        } else {
            Err(crate::core::error::InvalidPacketHeader.into())
        }
    }

    /// Reference framing of `data[..len]` (MQTT 5 2.1): number of complete frames and the offset
    /// after the k-th frame, for one-byte remaining lengths.
    fn ref_frames(data: &[u8; NDATA], len: usize, ends: &mut [usize; MAXF]) -> usize {
        let mut p = 0usize;
        let mut k = 0usize;
        while k < MAXF {
            if p + 2 > len {
                break;
            }
            let rl = data[p + 1] as usize; // assumed < 0x80 by the harness
            if p + 2 + rl > len {
                break;
            }
            p += 2 + rl;
            ends[k] = p;
            k += 1;
        }
        k
    }

    fn frames_within(ends: &[usize; MAXF], n: usize, upto: usize) -> usize {
        let mut c = 0;
        let mut k = 0;
        while k < MAXF {
            if k < n && ends[k] <= upto {
                c += 1;
            }
            k += 1;
        }
        c
    }

    /// true when the recording stub is active (solver build); in the native replay build (no stubs)
    /// the assertions that read the recorder are skipped, the others still apply
    fn recorder_active() -> bool {
        N_FRAMES.store(0, Ordering::Relaxed);
        let r = RxPacket::try_decode(bytes::Bytes::from_static(&[0xd0, 0x00]));
        core::mem::forget(r);
        let on = N_FRAMES.load(Ordering::Relaxed) == 1;
        N_FRAMES.store(0, Ordering::Relaxed);
        on
    }

    fn noop_cx() -> Context<'static> {
        let w: &'static core::task::Waker = Box::leak(Box::new(futures::task::noop_waker()));
        Context::from_waker(w)
    }

    //@ h name=rx_chunking props=C03,C16,C04 tier=off cap=big to=3600 mem=40
    //@ claim: for every byte stream made of frames with one-byte remaining lengths and every way of cutting it into reads (any sizes from 1 byte up, Pending injected anywhere), poll_next hands the decoder exactly the reference frames (same boundaries, same bytes, same order) no matter how the bytes were chunked; it returns Pending only after the reader returned Pending in that same call (so a wakeup is registered); when it returns Pending every complete frame among the delivered bytes has been emitted; it returns end-of-stream only after the reader reported end-of-stream or an error; it never panics
    //@ bounds: streams of 0..=4 arbitrary bytes whose frame headers carry one-byte remaining lengths (frames of 2..=4 bytes, up to 2 frames, possibly an incomplete tail); up to 4 polls; the reader delivers at most one chunk per poll of the stream (it returns Pending after every successful read) of the stream; reads limited by what the stream offers (512-byte chunks) and by the bytes still to come; RxPacket::try_decode replaced by a recording stub (the decoders are checked separately)
    //@ assume: RxPacket::try_decode stubbed by a recorder (framing does not depend on its result)
    //@ funcs: RxPacketStream::poll_next, RxPacketStream::from, VarSizeInt::try_from(&[u8])
    #[kani::proof]
    #[kani::unwind(6)]
    #[kani::stub(<crate::codec::RxPacket as crate::core::utils::TryDecode>::try_decode, decode_recorder)]
    pub(crate) fn rx_chunking() {
        rx_chunking_body(true, 4);
    }

    //@ h name=rx_chunking_eager props=C03,C16,C04 tier=off cap=big to=3600 mem=40
    //@ claim: same as rx_chunking, for readers that never return Pending while bytes are outstanding (every cut of the stream into reads, no early Pending), with more polls
    //@ bounds: as rx_chunking but the reader returns Pending only after the last byte; up to 5 polls
    //@ assume: RxPacket::try_decode stubbed by a recorder (framing does not depend on its result)
    //@ funcs: RxPacketStream::poll_next
    #[kani::proof]
    #[kani::unwind(6)]
    #[kani::stub(<crate::codec::RxPacket as crate::core::utils::TryDecode>::try_decode, decode_recorder)]
    pub(crate) fn rx_chunking_eager() {
        rx_chunking_body(false, 5);
    }

    fn rx_chunking_body(may_pend_early: bool, polls: usize) {
        let data: [u8; NDATA] = kani::any();
        let len: usize = kani::any();
        kani::assume(len <= NDATA);
        // one-byte remaining lengths at every frame start (reference framing below)
        let mut ends = [0usize; MAXF];
        {
            let mut p = 0usize;
            let mut k = 0;
            while k < MAXF {
                if p + 2 <= len {
                    kani::assume(data[p + 1] < 0x80);
                    p += 2 + data[p + 1] as usize;
                }
                k += 1;
            }
        }
        let n_ref = ref_frames(&data, len, &mut ends);
        let end: u8 = kani::any();
        kani::assume(end <= 2);
        N_FRAMES.store(0, Ordering::Relaxed);
        let mock = MockRx { data, len, pos: 0, end, may_pend_early, one_read_per_poll: true, just_read: false, registered: false, signalled_end: false, calls: 0, zero_len_reads: 0 };
        let mut stream = RxPacketStream::from(mock);
        let mut cx = noop_cx();
        let mut emitted = 0usize;
        let mut ended = false;
        let mut i = 0;
        while i < polls {
            if ended {
                break;
            }
            stream.stream.registered = false;
            let r = Pin::new(&mut stream).poll_next(&mut cx);
            let delivered = stream.stream.pos;
            match r {
                Poll::Pending => {
                    assert!(stream.stream.registered, "Pending only after the reader returned Pending in this poll (wakeup registered)");
                    assert!(emitted == frames_within(&ends, n_ref, delivered), "when Pending, every complete frame among the delivered bytes has been emitted");
                }
                Poll::Ready(None) => {
                    assert!(stream.stream.signalled_end, "end-of-stream only after the transport reported end-of-stream or an error");
                    ended = true;
                }
                Poll::Ready(Some(res)) => {
                    assert!(emitted < n_ref, "no frame beyond the reference framing is emitted");
                    let start = if emitted == 0 { 0 } else { ends[emitted - 1] };
                    let flen = ends[emitted] - start;
                    assert!(N_FRAMES.load(Ordering::Relaxed) == emitted + 1, "exactly one decoder call per emitted item");
                    assert!(F_LEN[emitted].load(Ordering::Relaxed) == flen, "frame length equals the reference frame");
                    assert!(F_HEAD[emitted].load(Ordering::Relaxed) == pack(&data[start..start + flen]), "frame bytes equal the reference frame");
                    assert!(flen >= 2, "the decoder never sees fewer than two bytes");
                    assert!(ends[emitted] <= delivered, "a frame is emitted only once all its bytes arrived");
                    emitted += 1;
                    core::mem::forget(res);
                }
            }
            assert!(stream.stream.zero_len_reads == 0, "the reader is never offered an empty buffer");
            i += 1;
        }
        kani::cover!(emitted >= 2, "at least two frames emitted");
        kani::cover!(emitted == 1 && stream.stream.calls >= 3, "a frame assembled from at least three reads");
        kani::cover!(ended, "end-of-stream reported");
        core::mem::forget(stream);
    }

    //@ h name=rx_one_byte_reads props=C03,C16,C04 tier=quick cap=big to=1200
    //@ claim: a two-byte packet delivered one byte per read (the reader returns each byte as soon as asked and Pending afterwards): the stream never returns Pending without the reader having registered the waker, never panics, never reports end-of-stream, and emits the packet once both bytes arrived
    //@ bounds: frames <hdr> 00 for every header byte; exactly the chunking 1+1; up to 4 polls
    //@ assume: RxPacket::try_decode stubbed by a recorder
    //@ funcs: RxPacketStream::poll_next
    #[kani::proof]
    #[kani::unwind(6)]
    #[kani::stub(<crate::codec::RxPacket as crate::core::utils::TryDecode>::try_decode, decode_recorder)]
    pub(crate) fn rx_one_byte_reads() {
        let hdr: u8 = kani::any();
        let mut data = [0u8; NDATA];
        data[0] = hdr;
        let rec = recorder_active();
        let mock = OneByteRx { data, len: 2, pos: 0, registered: false };
        let mut stream = RxPacketStream::from(mock);
        let mut cx = noop_cx();
        let mut emitted = 0;
        let mut i = 0;
        while i < 4 {
            stream.stream.registered = false;
            match Pin::new(&mut stream).poll_next(&mut cx) {
                Poll::Pending => {
                    assert!(stream.stream.registered, "Pending only after the reader returned Pending in this poll (wakeup registered)");
                    assert!(emitted == 1 || stream.stream.pos < 2, "when Pending, a complete delivered frame has been emitted");
                }
                Poll::Ready(None) => panic!("end-of-stream although the transport is still open"),
                Poll::Ready(Some(r)) => {
                    assert!(emitted == 0 && stream.stream.pos == 2, "emitted once, after both bytes arrived");
                    assert!(!rec || (F_LEN[0].load(Ordering::Relaxed) == 2 && F_HEAD[0].load(Ordering::Relaxed) == pack(&data[..2])), "the frame is the two bytes");
                    emitted += 1;
                    core::mem::forget(r);
                }
            }
            i += 1;
        }
        assert!(emitted == 1, "the packet is emitted within four polls");
        kani::cover!(hdr == 0xd0, "PINGRESP one byte at a time");
        kani::cover!(hdr == 0xe0, "DISCONNECT (remaining length 0) one byte at a time");
        core::mem::forget(stream);
    }

    /// Delivers exactly one byte per call while bytes remain, then Pending.
    pub(crate) struct OneByteRx {
        pub(crate) data: [u8; NDATA],
        pub(crate) len: usize,
        pub(crate) pos: usize,
        pub(crate) registered: bool,
    }
    impl AsyncRead for OneByteRx {
        fn poll_read(mut self: Pin<&mut Self>, _cx: &mut Context<'_>, buf: &mut [u8]) -> Poll<io::Result<usize>> {
            if buf.is_empty() {
                return Poll::Ready(Ok(0));
            }
            if self.pos >= self.len {
                self.registered = true;
                return Poll::Pending;
            }
            buf[0] = self.data[self.pos];
            self.pos += 1;
            Poll::Ready(Ok(1))
        }
    }

    pub(crate) const SN: usize = 8;
    /// Scripted reader: delivers the stream in the given chunk sizes (as many per poll as asked
    /// for), then stays Pending.
    pub(crate) struct ScriptRx {
        pub(crate) data: [u8; SN],
        pub(crate) len: usize,
        pub(crate) pos: usize,
        pub(crate) cuts: [usize; 4],
        pub(crate) k: usize,
        pub(crate) registered: bool,
    }
    impl AsyncRead for ScriptRx {
        fn poll_read(mut self: Pin<&mut Self>, _cx: &mut Context<'_>, buf: &mut [u8]) -> Poll<io::Result<usize>> {
            if buf.is_empty() {
                return Poll::Ready(Ok(0));
            }
            if self.pos >= self.len || self.k >= 4 || self.cuts[self.k] == 0 {
                self.registered = true;
                return Poll::Pending;
            }
            let n = self.cuts[self.k];
            let mut i = 0;
            while i < n {
                buf[i] = self.data[self.pos + i];
                i += 1;
            }
            self.pos += n;
            self.k += 1;
            Poll::Ready(Ok(n))
        }
    }

    fn pack8(b: &[u8]) -> u64 {
        let mut v = 0u64;
        let mut i = 0;
        while i < 8 {
            v = (v << 8) | if i < b.len() { b[i] as u64 } else { 0 };
            i += 1;
        }
        v
    }
    pub(crate) fn decode_recorder8(bytes: bytes::Bytes) -> Result<RxPacket, CodecError> {
        let k = N_FRAMES.load(Ordering::Relaxed);
        if k < MAXF {
            F_LEN[k].store(bytes.len(), Ordering::Relaxed);
            F_HEAD[k].store(pack8(&bytes[..]), Ordering::Relaxed);
        }
        N_FRAMES.store(k + 1, Ordering::Relaxed);
        Ok(RxPacket::Pingresp(crate::codec::PingrespRx {}))
    }

    /// Two frames with remaining lengths `rl0`, `rl1` (header bytes and bodies symbolic) delivered
    /// in the chunk sizes `cuts` (0 = unused).  Independence of chunking: the decoder must be
    /// handed exactly the two frames whatever the cuts; Pending only after the reader's Pending;
    /// no end-of-stream; no panic.
    fn rx_script_body(rl0: usize, rl1: usize, cuts: [usize; 4]) {
        let mut data: [u8; SN] = kani::any();
        let l0 = 2 + rl0;
        let l1 = 2 + rl1;
        data[1] = rl0 as u8;
        data[l0 + 1] = rl1 as u8;
        let len = l0 + l1;
        N_FRAMES.store(0, Ordering::Relaxed);
        let mock = ScriptRx { data, len, pos: 0, cuts, k: 0, registered: false };
        let mut stream = RxPacketStream::from(mock);
        let mut cx = noop_cx();
        let mut emitted = 0usize;
        let mut i = 0;
        while i < 4 {
            stream.stream.registered = false;
            match Pin::new(&mut stream).poll_next(&mut cx) {
                Poll::Pending => {
                    assert!(stream.stream.registered, "Pending only after the reader returned Pending in this poll (wakeup registered)");
                    let got = stream.stream.pos;
                    let complete = if got >= len { 2 } else if got >= l0 { 1 } else { 0 };
                    assert!(emitted == complete, "when Pending, every complete frame among the delivered bytes has been emitted");
                }
                Poll::Ready(None) => panic!("end-of-stream although the transport is still open"),
                Poll::Ready(Some(r)) => {
                    assert!(emitted < 2, "no third frame");
                    let (start, flen) = if emitted == 0 { (0, l0) } else { (l0, l1) };
                    assert!(F_LEN[emitted].load(Ordering::Relaxed) == flen, "frame length equals the reference frame");
                    assert!(F_HEAD[emitted].load(Ordering::Relaxed) == pack8(&data[start..start + flen]), "frame bytes equal the reference frame");
                    emitted += 1;
                    core::mem::forget(r);
                }
            }
            i += 1;
        }
        assert!(emitted == 2, "both frames are emitted within four polls");
        kani::cover!(true, "script completed");
        core::mem::forget(stream);
    }

    macro_rules! rx_script {
        ($name:ident, $rl0:expr, $rl1:expr, $cuts:expr) => {
            #[kani::proof]
            #[kani::unwind(9)]
            #[kani::stub(<crate::codec::RxPacket as crate::core::utils::TryDecode>::try_decode, decode_recorder8)]
            pub(crate) fn $name() {
                rx_script_body($rl0, $rl1, $cuts);
            }
        };
    }
    //@ h name=rx_script_3_3 props=C03,C16,C04 tier=off cap=big to=3600 mem=45
    //@ h name=rx_script_1_1_4 props=C03,C16,C04 tier=off cap=big to=3600 mem=45
    //@ h name=rx_script_2_3 props=C03,C16,C04 tier=off cap=big to=3600 mem=45
    //@ h name=rx_script_whole props=C03,C16,C04 tier=off cap=big to=3600 mem=45
    //@ h name=rx_script_4_1_1 props=C03,C16,C04 tier=off cap=big to=1800
    //@ h name=rx_script_1_4 props=C03,C16,C04 tier=off cap=big to=1800
    //@ claim: two consecutive frames are handed to the decoder with exactly their own bytes, in order, for the given way of cutting the byte stream into reads (a cut inside the fixed header, right after the next frame's header byte, at the frame boundary, or none); the stream returns Pending only after the reader returned Pending in that poll, emits every complete frame before going Pending, never reports end-of-stream while the transport is open, never panics
    //@ bounds: two frames with concrete remaining lengths (0+2, 0+2, 1+0, 0+0, 2+0, 0+3) and symbolic header and body bytes; one concrete cut pattern per harness (3|3, 1|1|4, 2|3, whole, 4|1|1, 1|4); up to 4 polls; all chunkings of short streams with symbolic cuts (rx_chunking*) are in the thorough tier because they exceed the quick tier's memory cap
    //@ assume: RxPacket::try_decode stubbed by a recorder (framing does not depend on its result)
    //@ funcs: RxPacketStream::poll_next, RxPacketStream::from, VarSizeInt::try_from(&[u8])
    rx_script!(rx_script_3_3, 0, 2, [3, 3, 0, 0]);
    rx_script!(rx_script_1_1_4, 0, 2, [1, 1, 4, 0]);
    rx_script!(rx_script_2_3, 1, 0, [2, 3, 0, 0]);
    rx_script!(rx_script_whole, 0, 0, [4, 0, 0, 0]);
    rx_script!(rx_script_4_1_1, 2, 0, [4, 1, 1, 0]);
    rx_script!(rx_script_1_4, 0, 3, [1, 4, 0, 0]);


    //@ h name=rx_two_in_one_read props=C03,C16,C04 tier=quick cap=big to=1800 mem=30
    //@ claim: two remaining-length-0 packets arriving in ONE read are both emitted, in order, before the stream goes Pending (nothing already received is withheld until an unrelated later read), Pending is returned only after the reader's Pending, no end-of-stream, no panic
    //@ bounds: frames <h0> 00 <h1> 00 for every pair of header bytes; one read of 4 bytes; 3 polls
    //@ assume: RxPacket::try_decode stubbed by a recorder
    //@ funcs: RxPacketStream::poll_next
    #[kani::proof]
    #[kani::unwind(9)]
    #[kani::stub(<crate::codec::RxPacket as crate::core::utils::TryDecode>::try_decode, decode_recorder8)]
    pub(crate) fn rx_two_in_one_read() {
        let (h0, h1): (u8, u8) = (kani::any(), kani::any());
        let mut data = [0u8; SN];
        data[0] = h0;
        data[2] = h1;
        let rec = recorder_active();
        let mock = ScriptRx { data, len: 4, pos: 0, cuts: [4, 0, 0, 0], k: 0, registered: false };
        let mut stream = RxPacketStream::from(mock);
        let mut cx = noop_cx();
        let mut emitted = 0usize;
        let mut i = 0;
        while i < 3 {
            stream.stream.registered = false;
            match Pin::new(&mut stream).poll_next(&mut cx) {
                Poll::Pending => {
                    assert!(stream.stream.registered, "Pending only after the reader returned Pending in this poll (wakeup registered)");
                    assert!(emitted == 2, "when Pending, every complete frame among the delivered bytes has been emitted");
                }
                Poll::Ready(None) => panic!("end-of-stream although the transport is still open"),
                Poll::Ready(Some(r)) => {
                    assert!(emitted < 2, "no third frame");
                    assert!(!rec || F_LEN[emitted].load(Ordering::Relaxed) == 2, "frame length equals the reference frame");
                    assert!(!rec || F_HEAD[emitted].load(Ordering::Relaxed) >> 56 == (if emitted == 0 { h0 } else { h1 }) as u64, "frames in order");
                    emitted += 1;
                    core::mem::forget(r);
                }
            }
            i += 1;
        }
        assert!(emitted == 2, "both frames are emitted within three polls");
        kani::cover!(h0 == 0xd0 && h1 == 0xe0, "PINGRESP then DISCONNECT in one read");
        kani::cover!(h0 == 0xf0, "AUTH first");
        core::mem::forget(stream);
    }

    /// Lean scripted-chunking check: two frames with concrete remaining lengths and concrete body
    /// bytes, symbolic header bytes, concrete cuts.
    fn rx_lean_body(rl0: usize, rl1: usize, cuts: [usize; 4], polls: usize) {
        let (h0, h1): (u8, u8) = (kani::any(), kani::any());
        let mut data = [0x5au8; SN];
        let l0 = 2 + rl0;
        let l1 = 2 + rl1;
        data[0] = h0;
        data[1] = rl0 as u8;
        data[l0] = h1;
        data[l0 + 1] = rl1 as u8;
        let len = l0 + l1;
        N_FRAMES.store(0, Ordering::Relaxed);
        let mock = ScriptRx { data, len, pos: 0, cuts, k: 0, registered: false };
        let mut stream = RxPacketStream::from(mock);
        let mut cx = noop_cx();
        let mut emitted = 0usize;
        let mut i = 0;
        while i < polls {
            stream.stream.registered = false;
            match Pin::new(&mut stream).poll_next(&mut cx) {
                Poll::Pending => {
                    assert!(stream.stream.registered, "Pending only after the reader returned Pending in this poll (wakeup registered)");
                    let got = stream.stream.pos;
                    let complete = if got >= len { 2 } else if got >= l0 { 1 } else { 0 };
                    assert!(emitted == complete, "when Pending, every complete frame among the delivered bytes has been emitted");
                }
                Poll::Ready(None) => panic!("end-of-stream although the transport is still open"),
                Poll::Ready(Some(r)) => {
                    assert!(emitted < 2, "no third frame");
                    let (flen, h) = if emitted == 0 { (l0, h0) } else { (l1, h1) };
                    assert!(F_LEN[emitted].load(Ordering::Relaxed) == flen, "frame length equals the reference frame");
                    assert!(F_HEAD[emitted].load(Ordering::Relaxed) >> 56 == h as u64, "frames in order, starting at their own header byte");
                    emitted += 1;
                    core::mem::forget(r);
                }
            }
            i += 1;
        }
        assert!(emitted == 2, "both frames are emitted within the polls allowed");
        kani::cover!(h0 == 0xd0 && h1 == 0x40, "PINGRESP-typed then PUBACK-typed frame");
        kani::cover!(h0 == h1, "equal header bytes");
        core::mem::forget(stream);
    }
    macro_rules! rx_lean {
        ($name:ident, $rl0:expr, $rl1:expr, $cuts:expr, $polls:expr) => {
            #[kani::proof]
            #[kani::unwind(9)]
            #[kani::stub(<crate::codec::RxPacket as crate::core::utils::TryDecode>::try_decode, decode_recorder8)]
            pub(crate) fn $name() {
                rx_lean_body($rl0, $rl1, $cuts, $polls);
            }
        };
    }
    //@ h name=rx_lean_3_3 props=C03,C16,C04 tier=off cap=big to=1800 mem=30
    //@ h name=rx_lean_2_2 props=C03,C16,C04 tier=off cap=big to=1800 mem=30
    //@ h name=rx_lean_1_3 props=C03,C16,C04 tier=off cap=big to=1800 mem=30
    //@ h name=rx_lean_2_3 props=C03,C16,C04 tier=off cap=big to=1800 mem=30
    //@ h name=rx_lean_5 props=C03,C16,C04 tier=off cap=big to=1800 mem=30
    //@ claim: two consecutive frames (symbolic header bytes, concrete remaining lengths and bodies) reach the decoder with their own lengths and header bytes, in order, for the given concrete way of cutting the stream into reads (right after the next frame's header byte, at the frame boundary, inside the first header, inside the first frame, none); Pending only after the reader's Pending; every complete delivered frame emitted before Pending; no end-of-stream; no panic
    //@ bounds: frames (rl 0, rl 2) cut 3|3; (0,0) cut 2|2; (0,0) cut 1|3; (1,0) cut 2|3; (2,0) cut 5 + (0); up to 4 polls
    //@ assume: RxPacket::try_decode stubbed by a recorder
    //@ funcs: RxPacketStream::poll_next, VarSizeInt::try_from(&[u8])
    rx_lean!(rx_lean_3_3, 0, 2, [3, 3, 0, 0], 4);
    rx_lean!(rx_lean_2_2, 0, 0, [2, 2, 0, 0], 4);
    rx_lean!(rx_lean_1_3, 0, 0, [1, 3, 0, 0], 4);
    rx_lean!(rx_lean_2_3, 1, 0, [2, 3, 0, 0], 4);
    rx_lean!(rx_lean_5, 2, 0, [6, 0, 0, 0], 3);

    // ------------------------------------------------------------------ TxPacketStream::write

    pub(crate) const WN: usize = 8;
    /// Writer mock: every poll_write accepts an arbitrary non-empty prefix of what it is offered,
    /// or returns Pending (registering the waker) a bounded number of times.
    pub(crate) struct FragTx {
        pub(crate) out: [u8; WN],
        pub(crate) n: usize,
        pub(crate) pendings_left: usize,
        pub(crate) registered: bool,
        pub(crate) max_chunk: usize,
    }
    impl AsyncWrite for FragTx {
        fn poll_write(mut self: Pin<&mut Self>, _cx: &mut Context<'_>, buf: &[u8]) -> Poll<io::Result<usize>> {
            if self.pendings_left > 0 && kani::any::<bool>() {
                self.pendings_left -= 1;
                self.registered = true;
                return Poll::Pending;
            }
            let k: usize = kani::any();
            kani::assume(k >= 1 && k <= buf.len() && k <= self.max_chunk);
            let mut i = 0;
            while i < k {
                let at = self.n;
                assert!(at < WN, "verif bound: writer mock capacity");
                self.out[at] = buf[i];
                self.n += 1;
                i += 1;
            }
            Poll::Ready(Ok(k))
        }
        fn poll_flush(self: Pin<&mut Self>, _cx: &mut Context<'_>) -> Poll<io::Result<()>> {
            Poll::Ready(Ok(()))
        }
        fn poll_close(self: Pin<&mut Self>, _cx: &mut Context<'_>) -> Poll<io::Result<()>> {
            Poll::Ready(Ok(()))
        }
    }

    //@ h name=tx_write_fragmented props=C01,C16 tier=thorough cap=small to=1200
    //@ claim: TxPacketStream::write of two packets one after the other, against a transport that accepts an arbitrary non-empty prefix per call and may answer Pending: the bytes the transport received are exactly the first packet followed by the second, complete and in order; write returns Pending only after the transport returned Pending (waker registered) and completes with Ok once everything was accepted
    //@ bounds: two packets of 1..=3 and 1..=3 arbitrary bytes; up to 2 Pending answers in total; accepted prefix per call any 1..=min(offered, 2); up to 6 polls per write
    //@ funcs: TxPacketStream::write, TxPacketStream::from (futures_util::io::WriteAll is real)
    #[kani::proof]
    #[kani::unwind(8)]
    pub(crate) fn tx_write_fragmented() {
        let a: [u8; 3] = kani::any();
        let b: [u8; 3] = kani::any();
        let (la, lb): (usize, usize) = (kani::any(), kani::any());
        kani::assume(la >= 1 && la <= 3 && lb >= 1 && lb <= 3);
        let mut tx = TxPacketStream::from(FragTx { out: [0; WN], n: 0, pendings_left: 2, registered: false, max_chunk: 2 });
        let mut cx = noop_cx();
        let mut done = 0;
        {
            let mut f = core::pin::pin!(tx.write(&a[..la]));
            let mut i = 0;
            while i < 6 && done == 0 {
                match core::future::Future::poll(f.as_mut(), &mut cx) {
                    Poll::Ready(Ok(())) => done = 1,
                    Poll::Ready(Err(_)) => panic!("no transport error was injected"),
                    Poll::Pending => {}
                }
                i += 1;
            }
        }
        assert!(done == 1, "first write completes");
        assert!(tx.stream.n == la, "exactly the first packet was handed to the transport");
        {
            let mut f = core::pin::pin!(tx.write(&b[..lb]));
            let mut i = 0;
            while i < 6 && done == 1 {
                match core::future::Future::poll(f.as_mut(), &mut cx) {
                    Poll::Ready(Ok(())) => done = 2,
                    Poll::Ready(Err(_)) => panic!("no transport error was injected"),
                    Poll::Pending => {}
                }
                i += 1;
            }
        }
        assert!(done == 2, "second write completes");
        assert!(tx.stream.n == la + lb, "both packets, nothing else");
        let mut i = 0;
        while i < 6 {
            if i < la {
                assert!(tx.stream.out[i] == a[i], "first packet's bytes in order");
            } else if i < la + lb {
                assert!(tx.stream.out[i] == b[i - la], "second packet's bytes follow, in order");
            }
            i += 1;
        }
        kani::cover!(tx.stream.pendings_left == 0, "two Pending answers consumed");
        kani::cover!(la == 3 && lb == 3, "two three-byte packets");
        core::mem::forget(tx);
    }

    //@ h name=rx_split_length props=C03,C16,C04 tier=thorough cap=big to=1800 mem=30
    //@ claim: when a read ends INSIDE a multi-byte Remaining Length (header byte plus one to three length bytes, all with the continuation bit set), poll_next does not emit anything, does not panic, does not report end-of-stream, and returns Pending only after having polled the reader again in the same call (so that the wakeup for the rest of the length field is registered)
    //@ bounds: header byte arbitrary; 1..=3 length bytes with the continuation bit set and arbitrary low bits, delivered in one read (and, _1_1: the header alone first); the reader is Pending afterwards; 2 polls
    //@ assume: RxPacket::try_decode stubbed by a recorder (never reached here)
    //@ funcs: RxPacketStream::poll_next, VarSizeInt::try_from(&[u8])
    #[kani::proof]
    #[kani::unwind(9)]
    #[kani::stub(<crate::codec::RxPacket as crate::core::utils::TryDecode>::try_decode, decode_recorder8)]
    pub(crate) fn rx_split_length() {
        let h0: u8 = kani::any();
        let (l1, l2, l3): (u8, u8, u8) = (kani::any(), kani::any(), kani::any());
        let nlen: usize = kani::any();
        kani::assume(nlen >= 1 && nlen <= 3);
        let header_alone_first: bool = kani::any();
        let mut data = [0u8; SN];
        data[0] = h0;
        data[1] = l1 | 0x80;
        data[2] = l2 | 0x80;
        data[3] = l3 | 0x80;
        N_FRAMES.store(0, Ordering::Relaxed);
        let cuts = if header_alone_first { [1, nlen, 0, 0] } else { [1 + nlen, 0, 0, 0] };
        let mock = ScriptRx { data, len: 1 + nlen, pos: 0, cuts, k: 0, registered: false };
        let mut stream = RxPacketStream::from(mock);
        let mut cx = noop_cx();
        let mut i = 0;
        while i < 2 {
            stream.stream.registered = false;
            match Pin::new(&mut stream).poll_next(&mut cx) {
                Poll::Pending => {
                    assert!(stream.stream.registered, "Pending only after the reader returned Pending in this poll (wakeup registered)");
                    assert!(stream.stream.pos == 1 + nlen, "every byte the transport had was consumed before going Pending");
                }
                Poll::Ready(None) => panic!("end-of-stream although the transport is still open"),
                Poll::Ready(Some(r)) => {
                    core::mem::forget(r);
                    panic!("nothing can be emitted before the Remaining Length is complete");
                }
            }
            i += 1;
        }
        kani::cover!(nlen == 3 && !header_alone_first, "header and three continuation bytes in one read");
        kani::cover!(nlen == 1 && header_alone_first, "header alone, then one continuation byte");
        core::mem::forget(stream);
    }
}
