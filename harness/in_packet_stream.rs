// Included at the end of src/io/packet_stream.rs (scratch copy only): L2 harnesses on the framing
// state machine `RxPacketStream::poll_next` and on `TxPacketStream::write`.
#[cfg(kani)]
mod verif_in_packet_stream {
    use super::*;
    use core::sync::atomic::{AtomicU64, AtomicUsize, Ordering};

    pub(crate) const NDATA: usize = 10;

    /// Transport mock.  Every `poll_read` picks (symbolically, at call time) among the outcomes the
    /// AsyncRead contract allows: `Pending` (the waker is registered: flag), `Ok(n)` with
    /// 1 <= n <= min(bytes still to come, buf.len()), and, once all bytes were delivered,
    /// `Pending` forever or end-of-stream (`Ok(0)`) or an error, as fixed by `end`.
    pub(crate) struct MockRx {
        pub(crate) data: [u8; NDATA],
        pub(crate) len: usize,
        pub(crate) pos: usize,
        /// 0: stays open (Pending) after the last byte; 1: Ok(0); 2: Err
        pub(crate) end: u8,
        pub(crate) may_pend_early: bool,
        pub(crate) registered: bool,
        pub(crate) signalled_end: bool,
        pub(crate) calls: usize,
        pub(crate) zero_len_reads: usize,
    }

    impl AsyncRead for MockRx {
        fn poll_read(mut self: Pin<&mut Self>, _cx: &mut Context<'_>, buf: &mut [u8]) -> Poll<io::Result<usize>> {
            self.calls += 1;
            if buf.is_empty() {
                // reading into an empty buffer yields Ok(0) whatever the stream state: the caller
                // must not take that for end-of-stream
                self.zero_len_reads += 1;
                return Poll::Ready(Ok(0));
            }
            let avail = self.len - self.pos;
            if avail == 0 {
                match self.end {
                    0 => {
                        self.registered = true;
                        return Poll::Pending;
                    }
                    1 => {
                        self.signalled_end = true;
                        return Poll::Ready(Ok(0));
                    }
                    _ => {
                        self.signalled_end = true;
                        return Poll::Ready(Err(io::Error::from(io::ErrorKind::ConnectionReset)));
                    }
                }
            }
            if self.may_pend_early && kani::any::<bool>() {
                self.registered = true;
                return Poll::Pending;
            }
            let n: usize = kani::any();
            kani::assume(n >= 1 && n <= avail && n <= buf.len());
            let mut i = 0;
            while i < n {
                buf[i] = self.data[self.pos + i];
                i += 1;
            }
            self.pos += n;
            Poll::Ready(Ok(n))
        }
    }

    // ---- recording stub for the decoder: L2 is about WHICH byte ranges reach the decoder ----
    pub(crate) const MAXF: usize = 6;
    static N_FRAMES: AtomicUsize = AtomicUsize::new(0);
    static F_LEN: [AtomicUsize; MAXF] = [const { AtomicUsize::new(0) }; MAXF];
    static F_HEAD: [AtomicU64; MAXF] = [const { AtomicU64::new(0) }; MAXF];

    fn pack(b: &[u8]) -> u64 {
        let mut v = 0u64;
        let mut i = 0;
        while i < 8 {
            v = (v << 8) | if i < b.len() { b[i] as u64 } else { 0 };
            i += 1;
        }
        v
    }

    pub(crate) fn decode_recorder(bytes: bytes::Bytes) -> Result<RxPacket, CodecError> {
        let k = N_FRAMES.load(Ordering::Relaxed);
        if k < MAXF {
            F_LEN[k].store(bytes.len(), Ordering::Relaxed);
            F_HEAD[k].store(pack(&bytes[..]), Ordering::Relaxed);
        }
        N_FRAMES.store(k + 1, Ordering::Relaxed);
        // what is returned is irrelevant for framing; the decoders have their own harnesses
        if bytes.len() >= 1 && bytes[0] == 0xd0 {
            Ok(RxPacket::Pingresp(crate::codec::PingrespRx {}))
        } else {
            Err(crate::core::error::InvalidPacketHeader.into())
        }
    }

    /// Reference framing of `data[..len]` (MQTT 5 2.1): number of complete frames and the offset
    /// after the k-th frame, for one-byte remaining lengths.
    fn ref_frames(data: &[u8; NDATA], len: usize, ends: &mut [usize; MAXF]) -> usize {
        let mut p = 0usize;
        let mut k = 0usize;
        while k < MAXF {
            if p + 2 > len {
                break;
            }
            let rl = data[p + 1] as usize; // assumed < 0x80 by the harness
            if p + 2 + rl > len {
                break;
            }
            p += 2 + rl;
            ends[k] = p;
            k += 1;
        }
        k
    }

    fn frames_within(ends: &[usize; MAXF], n: usize, upto: usize) -> usize {
        let mut c = 0;
        let mut k = 0;
        while k < MAXF {
            if k < n && ends[k] <= upto {
                c += 1;
            }
            k += 1;
        }
        c
    }

    fn noop_cx() -> Context<'static> {
        let w: &'static core::task::Waker = Box::leak(Box::new(futures::task::noop_waker()));
        Context::from_waker(w)
    }

    //@ h name=rx_chunking props=C03,C16,C04 tier=quick cap=big to=2400
    //@ claim: for every byte stream made of frames with one-byte remaining lengths and every way of cutting it into reads (any sizes from 1 byte up, Pending injected anywhere), poll_next hands the decoder exactly the reference frames (same boundaries, same bytes, same order) no matter how the bytes were chunked; it returns Pending only after the reader returned Pending in that same call (so a wakeup is registered); when it returns Pending every complete frame among the delivered bytes has been emitted; it returns end-of-stream only after the reader reported end-of-stream or an error; it never panics
    //@ bounds: streams of 0..=10 arbitrary bytes whose frame headers carry one-byte remaining lengths (frames of 2..=10 bytes, up to 5 frames, possibly an incomplete tail); up to 8 polls of the stream; reads limited by what the stream offers (512-byte chunks) and by the bytes still to come; RxPacket::try_decode replaced by a recording stub (the decoders are checked separately)
    //@ assume: RxPacket::try_decode stubbed by a recorder (framing does not depend on its result)
    //@ funcs: RxPacketStream::poll_next, RxPacketStream::from, VarSizeInt::try_from(&[u8])
    #[kani::proof]
    #[kani::unwind(12)]
    #[kani::stub(<crate::codec::RxPacket as crate::core::utils::TryDecode>::try_decode, decode_recorder)]
    pub(crate) fn rx_chunking() {
        rx_chunking_body(true, 8);
    }

    //@ h name=rx_chunking_eager props=C03,C16,C04 tier=quick cap=big to=2400
    //@ claim: same as rx_chunking, for readers that never return Pending while bytes are outstanding (every cut of the stream into reads, no early Pending), with more polls
    //@ bounds: as rx_chunking but the reader returns Pending only after the last byte; up to 10 polls
    //@ assume: RxPacket::try_decode stubbed by a recorder (framing does not depend on its result)
    //@ funcs: RxPacketStream::poll_next
    #[kani::proof]
    #[kani::unwind(12)]
    #[kani::stub(<crate::codec::RxPacket as crate::core::utils::TryDecode>::try_decode, decode_recorder)]
    pub(crate) fn rx_chunking_eager() {
        rx_chunking_body(false, 10);
    }

    fn rx_chunking_body(may_pend_early: bool, polls: usize) {
        let data: [u8; NDATA] = kani::any();
        let len: usize = kani::any();
        kani::assume(len <= NDATA);
        // one-byte remaining lengths at every frame start (reference framing below)
        let mut ends = [0usize; MAXF];
        {
            let mut p = 0usize;
            let mut k = 0;
            while k < MAXF {
                if p + 2 <= len {
                    kani::assume(data[p + 1] < 0x80);
                    p += 2 + data[p + 1] as usize;
                }
                k += 1;
            }
        }
        let n_ref = ref_frames(&data, len, &mut ends);
        let end: u8 = kani::any();
        kani::assume(end <= 2);
        N_FRAMES.store(0, Ordering::Relaxed);
        let mock = MockRx { data, len, pos: 0, end, may_pend_early, registered: false, signalled_end: false, calls: 0, zero_len_reads: 0 };
        let mut stream = RxPacketStream::from(mock);
        let mut cx = noop_cx();
        let mut emitted = 0usize;
        let mut ended = false;
        let mut i = 0;
        while i < polls {
            if ended {
                break;
            }
            stream.stream.registered = false;
            let r = Pin::new(&mut stream).poll_next(&mut cx);
            let delivered = stream.stream.pos;
            match r {
                Poll::Pending => {
                    assert!(stream.stream.registered, "Pending only after the reader returned Pending in this poll (wakeup registered)");
                    assert!(emitted == frames_within(&ends, n_ref, delivered), "when Pending, every complete frame among the delivered bytes has been emitted");
                }
                Poll::Ready(None) => {
                    assert!(stream.stream.signalled_end, "end-of-stream only after the transport reported end-of-stream or an error");
                    ended = true;
                }
                Poll::Ready(Some(res)) => {
                    assert!(emitted < n_ref, "no frame beyond the reference framing is emitted");
                    let start = if emitted == 0 { 0 } else { ends[emitted - 1] };
                    let flen = ends[emitted] - start;
                    assert!(N_FRAMES.load(Ordering::Relaxed) == emitted + 1, "exactly one decoder call per emitted item");
                    assert!(F_LEN[emitted].load(Ordering::Relaxed) == flen, "frame length equals the reference frame");
                    assert!(F_HEAD[emitted].load(Ordering::Relaxed) == pack(&data[start..start + flen]), "frame bytes equal the reference frame");
                    assert!(flen >= 2, "the decoder never sees fewer than two bytes");
                    assert!(ends[emitted] <= delivered, "a frame is emitted only once all its bytes arrived");
                    emitted += 1;
                    core::mem::forget(res);
                }
            }
            assert!(stream.stream.zero_len_reads == 0, "the reader is never offered an empty buffer");
            i += 1;
        }
        kani::cover!(emitted >= 2, "at least two frames emitted");
        kani::cover!(emitted == 1 && stream.stream.calls >= 3, "a frame assembled from at least three reads");
        kani::cover!(ended, "end-of-stream reported");
        core::mem::forget(stream);
    }
}
