//! L1-enc (C01): every client packet built through the public option builders, with symbolic
//! presence of the optional fields and symbolic values, is re-decoded by the independent
//! reference decoder (refdec.rs) and compared field by field.
use crate::client::*;
use crate::codec::*;
use crate::core::base_types::*;
use crate::core::utils::*;
use crate::verif_h::refdec;
use crate::verif_h::refdec::{eq, opt_eq};
use crate::verif_h::sym::*;
use bytes::BytesMut;
use core::time::Duration;

/// Presence of optional field number `k`: symbolic when `k` is in the harness's symbolic group
/// `sym` (a compile-time constant bit set), otherwise the concrete background `bg`.  Keeping most
/// presence bits concrete keeps the write offsets concrete; every harness is still one solver
/// query over all values and over all subsets of its symbolic group.
fn present(sym: u32, bg: bool, k: u32) -> bool {
    if sym & (1 << k) != 0 {
        kani::any()
    } else {
        bg
    }
}
/// Prefix of a constant string: concrete length `n` (per harness variant).
fn pre(s: &'static str, n: usize) -> &'static str {
    if n < s.len() {
        &s[..n]
    } else {
        s
    }
}
fn preb(s: &'static [u8], n: usize) -> &'static [u8] {
    if n < s.len() {
        &s[..n]
    } else {
        s
    }
}
fn any_qos() -> QoS {
    let q: u8 = kani::any();
    kani::assume(q < 3);
    QoS::try_from(q).unwrap()
}
fn secs(v: u32) -> Duration {
    Duration::from_secs(v as u64)
}

/// CONNECT.  `will`: no will / will (topic + payload) with will properties.  `sym`: which optional
/// fields have symbolic presence (bit numbers in the order of the `present` calls), `bg`: presence
/// of all the others, `sl`: length of every string/binary.
fn enc_connect_body(will: bool, sym: u32, bg: bool, sl: usize, nu: usize) {
    let mut o = ConnectOpts::new();
    let client_id = pre("cid", sl);
    let has_cid = present(sym, bg, 0);
    if has_cid {
        o = o.client_identifier(client_id);
    }
    let keep_alive: u16 = kani::any();
    let has_ka = present(sym, bg, 1);
    if has_ka {
        o = o.keep_alive(Duration::from_secs(keep_alive as u64));
    }
    let (p_sei, sei): (bool, u32) = (present(sym, bg, 2), kani::any());
    if p_sei {
        o = o.session_expiry_interval(secs(sei));
    }
    let (p_rm, rm): (bool, u16) = (present(sym, bg, 3), kani::any());
    kani::assume(rm != 0);
    if p_rm {
        o = o.receive_maximum(rm);
    }
    let (p_mps, mps): (bool, u32) = (present(sym, bg, 4), kani::any());
    kani::assume(mps != 0);
    if p_mps {
        o = o.maximum_packet_size(mps);
    }
    let (p_tam, tam): (bool, u16) = (present(sym, bg, 5), kani::any());
    if p_tam {
        o = o.topic_alias_maximum(tam);
    }
    let (p_rri, rri): (bool, bool) = (present(sym, bg, 6), kani::any());
    if p_rri {
        o = o.request_response_information(rri);
    }
    let (p_rpi, rpi): (bool, bool) = (present(sym, bg, 7), kani::any());
    if p_rpi {
        o = o.request_problem_information(rpi);
    }
    let p_am = present(sym, bg, 8);
    let am = pre("mth", sl);
    if p_am {
        o = o.authentication_method(am);
    }
    let p_ad = present(sym, bg, 9);
    let ad = preb(b"\x01\x02", sl);
    if p_ad {
        o = o.authentication_data(ad);
    }
    // the numbers of user properties are concrete per harness (a Vec of symbolic length is out of
    // the solver's reach, see DESIGN.md)
    let u0 = nu >= 1;
    let u1 = nu >= 2;
    let n_user = nu;
    let (k0, v0, k1, v1) = (pre("k", sl), pre("v", sl), pre("l", sl), pre("w", sl));
    if u0 {
        o = o.user_property((k0, v0));
    }
    if u1 {
        o = o.user_property((k1, v1));
    }
    let clean: bool = kani::any();
    let has_clean = present(sym, bg, 12);
    if has_clean {
        o = o.clean_start(clean);
    }
    let p_user = present(sym, bg, 13);
    let user = pre("usr", sl);
    if p_user {
        o = o.username(user);
    }
    let p_pass = present(sym, bg, 14);
    let pass = preb(b"pwd", sl);
    if p_pass {
        o = o.password(pass);
    }
    // will
    let will_qos = any_qos();
    let will_retain: bool = kani::any();
    let wt = pre("wt", sl);
    let wp = preb(b"\xff\x00", sl);
    let (p_wdi, wdi): (bool, u32) = (will && present(sym, bg, 15), kani::any());
    let (p_wpfi, wpfi): (bool, bool) = (will && present(sym, bg, 16), kani::any());
    let (p_wmei, wmei): (bool, u32) = (will && present(sym, bg, 17), kani::any());
    let p_wct = will && present(sym, bg, 18);
    let wct = pre("ct", sl);
    let p_wrt = will && present(sym, bg, 19);
    let wrt = pre("rt", sl);
    let p_wcd = will && present(sym, bg, 20);
    let wcd = preb(b"\x07\x08", sl);
    let wu0 = will && nu >= 1;
    let wu1 = will && nu >= 2;
    let n_wuser = if will { nu } else { 0 };
    let (wk0, wv0, wk1, wv1) = (pre("a", sl), pre("b", sl), pre("c", sl), pre("d", sl));
    if will {
        o = o.will_topic(wt).will_payload(wp).will_qos(will_qos).will_retain(will_retain);
        if p_wdi {
            o = o.will_delay_interval(secs(wdi));
        }
        if p_wpfi {
            o = o.will_payload_format_indicator(wpfi);
        }
        if p_wmei {
            o = o.will_message_expiry_interval(secs(wmei));
        }
        if p_wct {
            o = o.will_content_type(wct);
        }
        if p_wrt {
            o = o.will_response_topic(wrt);
        }
        if p_wcd {
            o = o.will_correlation_data(wcd);
        }
        if wu0 {
            o = o.will_user_property((wk0, wv0));
        }
        if wu1 {
            o = o.will_user_property((wk1, wv1));
        }
    }

    let built = o.build();
    if p_ad && !p_am {
        assert!(built.is_err(), "authentication data without a method is refused before anything is written");
        kani::cover!(true, "opt: refusal reachable");
        core::mem::forget(built);
        return;
    }
    let packet = built.unwrap();
    let mut buf = BytesMut::with_capacity(packet.packet_len());
    packet.encode(&mut buf);
    assert!(buf.len() == packet.packet_len(), "packet_len() equals the bytes written");

    let users = [(k0.as_bytes(), v0.as_bytes()), (k1.as_bytes(), v1.as_bytes())];
    let pe = refdec::Exp {
        ids: &[17, 33, 39, 34, 25, 23, 21, 22],
        present: &[p_sei, p_rm, p_mps, p_tam, p_rri, p_rpi, p_am, p_ad],
        ival: &[sei, rm as u32, mps, tam as u32, rri as u32, rpi as u32, 0, 0],
        sval: &[&[], &[], &[], &[], &[], &[], am.as_bytes(), ad],
        users: &users,
        n_users: n_user,
    };
    let wusers = [(wk0.as_bytes(), wv0.as_bytes()), (wk1.as_bytes(), wv1.as_bytes())];
    let we = refdec::Exp {
        ids: &[24, 1, 2, 3, 8, 9],
        present: &[p_wdi, p_wpfi, p_wmei, p_wct, p_wrt, p_wcd],
        ival: &[wdi, wpfi as u32, wmei, 0, 0, 0],
        sval: &[&[], &[], &[], wct.as_bytes(), wrt.as_bytes(), wcd],
        users: &wusers,
        n_users: n_wuser,
    };
    let d = refdec::connect(&buf[..], &pe, &we);
    assert!(!matches!(d, Err(refdec::E_STRUCT)), "CONNECT is well-formed: remaining length and property lengths equal what follows, protocol constants, no reserved bits, no trailing bytes");
    assert!(d.is_ok(), "CONNECT properties and will properties are exactly the supplied ones (none illegal, duplicated, missing, unexpected or with another value)");
    let d = d.unwrap();
    assert!(eq(d.client_id, if has_cid { client_id.as_bytes() } else { b"" }), "client identifier");
    assert!(d.keep_alive == if has_ka { keep_alive } else { 0 }, "keep alive");
    assert!((d.flags & 2 != 0) == (has_clean && clean), "clean start flag at bit 1");
    assert!(opt_eq(d.username, if p_user { Some(user.as_bytes()) } else { None }), "user name");
    assert!(opt_eq(d.password, if p_pass { Some(pass) } else { None }), "password");
    if will {
        assert!(d.flags & 4 != 0, "will flag");
        assert!((d.flags >> 3) & 3 == will_qos as u8, "will QoS at bits 3-4");
        assert!((d.flags & 0x20 != 0) == will_retain, "will retain at bit 5");
        assert!(opt_eq(d.will_topic, Some(wt.as_bytes())), "will topic");
        assert!(opt_eq(d.will_payload, Some(wp)), "will payload");
    } else {
        assert!(d.flags & 4 == 0 && d.will_topic.is_none(), "no will");
    }
    kani::cover!(true, "opt: accepted packet re-decoded");
    core::mem::forget(packet);
}

macro_rules! enc_connect {
    ($name:ident, $will:expr, $sym:expr, $bg:expr, $sl:expr, $nu:expr) => {
        #[kani::proof]
        #[kani::unwind(12)]
        pub(crate) fn $name() {
            enc_connect_body($will, $sym, $bg, $sl, $nu);
        }
    };
}

const G_INT_A: u32 = 0b0001_1100; // session expiry, receive maximum, maximum packet size
const G_INT_B: u32 = 0b1110_0000; // topic alias maximum, request response information, request problem information
const G_STR: u32 = (1 << 8) | (1 << 9) | (1 << 13) | (1 << 14); // authentication method, authentication data, user name, password
const G_MISC: u32 = 0b11 | (1 << 12); // client identifier, keep alive, clean start
const G_UP: u32 = (1 << 13) | (1 << 14); // user name, password
const G_AUTH: u32 = (1 << 8) | (1 << 9); // authentication method, authentication data
const G_CID: u32 = 0b11 | (1 << 12) | (1 << 13); // client identifier, keep alive, clean start, user name
const G_WILL_A: u32 = 0b111 << 15; // will delay, will payload format indicator, will message expiry
const G_WILL_B: u32 = 0b111 << 18; // will content type, will response topic, will correlation data

//@ h name=enc_connect_inta_none props=C01 tier=quick cap=mid to=1200
//@ h name=enc_connect_inta_all props=C01 tier=off cap=mid to=1800
//@ h name=enc_connect_intb_none props=C01 tier=off cap=mid to=1200
//@ h name=enc_connect_intb_all props=C01 tier=quick cap=mid to=1800
//@ h name=enc_connect_str_none props=C01 tier=off cap=mid to=1200
//@ h name=enc_connect_str_all props=C01 tier=off cap=mid to=1800
//@ h name=enc_connect_misc_none props=C01 tier=off cap=mid to=1200
//@ h name=enc_connect_misc_all props=C01 tier=off cap=mid to=1800
//@ h name=enc_connect_up_none props=C01 tier=quick cap=mid to=1200
//@ h name=enc_connect_auth_none props=C01 tier=off cap=mid to=1200
//@ h name=enc_connect_cid_none props=C01 tier=quick cap=mid to=1200
//@ h name=enc_connect_willa_none props=C01 tier=quick cap=mid to=1200
//@ h name=enc_connect_willa_all props=C01 tier=off cap=mid to=1800
//@ h name=enc_connect_willb_none props=C01 tier=quick cap=mid to=1200
//@ h name=enc_connect_willb_all props=C01 tier=off cap=mid to=1800
//@ claim: ConnectOpts -> ConnectTx::encode: packet_len() equals the bytes written; the reference decoder accepts the bytes as exactly one well-formed CONNECT and returns exactly the supplied values (flags at the standard's bits, property and remaining length fields equal to what follows); authentication data without a method is refused by build() before anything is encoded
//@ bounds: per harness a group of 2-4 optional fields has symbolic presence (all subsets decided by the solver), the other optional fields are all absent (_none) or all present (_all); integers/booleans/QoS full range; strings/binaries concrete content of length 2-3 (_all) or 0 (_none); user properties and will user properties: 0 (_none) or 2 (_all) each; will absent or topic+payload present (will QoS/retain without a will and a will with only topic or only payload are outside MQTT 5's domain)
//@ funcs: ConnectOpts::*, ConnectTxBuilder::build/validate, ConnectTx::encode, ConnectTx::packet_len, ConnectTx::remaining_len, ConnectTx::property_len, ConnectTx::will_property_len, ConnectTx::payload_len, ConnectTx::payload_flags, ConnectTx::will_flag, VarSizeInt::encode, property Encode impls
enc_connect!(enc_connect_inta_none, false, G_INT_A, false, 0, 0);
enc_connect!(enc_connect_inta_all, true, G_INT_A, true, 3, 2);
enc_connect!(enc_connect_intb_none, false, G_INT_B, false, 0, 0);
enc_connect!(enc_connect_intb_all, false, G_INT_B, true, 3, 2);
enc_connect!(enc_connect_str_none, false, G_STR, false, 0, 1);
enc_connect!(enc_connect_str_all, true, G_STR, true, 3, 2);
enc_connect!(enc_connect_misc_none, true, G_MISC, false, 0, 0);
enc_connect!(enc_connect_misc_all, true, G_MISC, true, 3, 1);
enc_connect!(enc_connect_up_none, false, G_UP, false, 2, 0);
enc_connect!(enc_connect_auth_none, false, G_AUTH, false, 2, 0);
enc_connect!(enc_connect_cid_none, true, G_CID, false, 1, 0);
enc_connect!(enc_connect_willa_none, true, G_WILL_A, false, 0, 0);
enc_connect!(enc_connect_willa_all, true, G_WILL_A, true, 3, 2);
enc_connect!(enc_connect_willb_none, true, G_WILL_B, false, 1, 1);
enc_connect!(enc_connect_willb_all, true, G_WILL_B, true, 3, 2);

// ------------------------------------------------------------------------------------------ AUTH

fn any_auth_reason() -> AuthReason {
    let r: u8 = kani::any();
    kani::assume(r == 0 || r == 0x18 || r == 0x19);
    AuthReason::try_from(r).unwrap()
}

/// AUTH through the public AuthOpts (reason, method, data, user properties) and, for the reason
/// string that AuthOpts cannot combine with other options, through the builder it wraps.
fn enc_auth_body(sl: usize, nu: usize) {
    let reason = any_auth_reason();
    let has_reason: bool = kani::any();
    let (p_am, p_ad, p_rs): (bool, bool, bool) = (kani::any(), kani::any(), kani::any());
    let u0 = nu >= 1;
    let u1 = nu >= 2;
    let n_user = nu;
    let (am, ad, rs) = (pre("mth", sl), preb(b"\x01\x02\x03", sl), pre("why", sl));
    let (k0, v0, k1, v1) = (pre("k", sl), pre("v", sl), pre("l", sl), pre("w", sl));
    let mut b = AuthTxBuilder::default();
    if has_reason {
        b.reason(reason);
    }
    if p_am {
        b.authentication_method(crate::core::properties::AuthenticationMethodRef::from(UTF8StringRef(am)));
    }
    if p_ad {
        b.authentication_data(crate::core::properties::AuthenticationDataRef::from(BinaryRef(ad)));
    }
    if p_rs {
        b.reason_string(crate::core::properties::ReasonStringRef::from(UTF8StringRef(rs)));
    }
    if u0 {
        b.user_property(crate::core::properties::UserPropertyRef::from(UTF8StringPairRef(k0, v0)));
    }
    if u1 {
        b.user_property(crate::core::properties::UserPropertyRef::from(UTF8StringPairRef(k1, v1)));
    }
    let built = b.build();
    let eff_reason = if has_reason { reason as u8 } else { 0 };
    let short = eff_reason == 0 && !p_am && !p_ad && !p_rs && !u0;
    if !short && !(p_am && p_ad) {
        assert!(built.is_err(), "extended authentication without both method and data is refused before anything is written");
        kani::cover!(true, "opt: refusal reachable");
        core::mem::forget(built);
        return;
    }
    let packet = built.unwrap();
    let mut buf = BytesMut::with_capacity(packet.packet_len());
    packet.encode(&mut buf);
    assert!(buf.len() == packet.packet_len(), "packet_len() equals the bytes written");
    let users = [(k0.as_bytes(), v0.as_bytes()), (k1.as_bytes(), v1.as_bytes())];
    let pe = refdec::Exp {
        ids: &[21, 22, 31],
        present: &[p_am, p_ad, p_rs],
        ival: &[0, 0, 0],
        sval: &[am.as_bytes(), ad, rs.as_bytes()],
        users: &users,
        n_users: n_user,
    };
    let d = refdec::auth(&buf[..], &pe);
    assert!(!matches!(d, Err(refdec::E_STRUCT)), "AUTH is well-formed: remaining length and property length equal what follows");
    assert!(d.is_ok(), "AUTH properties are exactly the supplied ones");
    let (r, form) = d.unwrap();
    assert!(r == eff_reason, "reason code");
    assert!((form == 0) == short, "shortened form exactly when reason is Success and there are no properties");
    kani::cover!(form == 2, "opt: full form");
    kani::cover!(form == 0, "opt: shortened form");
    core::mem::forget(packet);
}

//@ h name=enc_auth props=C01 tier=quick cap=small to=900
//@ h name=enc_auth_u1 props=C01 tier=thorough cap=small to=900
//@ h name=enc_auth_u2_empty_strings props=C01 tier=off cap=small to=900
//@ claim: AuthTxBuilder (what AuthOpts wraps) -> AuthTx::encode: every subset of {reason, method, data, reason string} with 0 / 1 / 2 user properties (concrete per harness): either refused by build() (extended authentication without both method and data) or packet_len() equals the bytes written and the reference decoder finds exactly one well-formed AUTH with the supplied reason and properties; shortened form iff Success and no properties
//@ bounds: all presence bits symbolic; reason over its three codes; strings concrete content of length 3 (enc_auth) or 0 (enc_auth_empty_strings)
//@ funcs: AuthTxBuilder::build/validate, AuthTx::encode, AuthTx::packet_len, AuthTx::remaining_len, AuthTx::property_len, AuthTx::is_shortened
#[kani::proof]
#[kani::unwind(8)]
pub(crate) fn enc_auth() {
    enc_auth_body(3, 0);
}
#[kani::proof]
#[kani::unwind(8)]
pub(crate) fn enc_auth_u1() {
    enc_auth_body(2, 1);
}
#[kani::proof]
#[kani::unwind(8)]
pub(crate) fn enc_auth_u2_empty_strings() {
    enc_auth_body(0, 2);
}

//@ h name=enc_auth_opts props=C01 tier=quick cap=small to=600
//@ claim: the public AuthOpts setters (reason, authentication_method, authentication_data, user_property) hand exactly their arguments to the builder: the packet built from AuthOpts encodes to the same bytes as the one built from the builder directly
//@ bounds: method/data present (the only non-refused non-empty combination), one user property, reason symbolic, strings length 2
//@ funcs: AuthOpts::reason, AuthOpts::authentication_method, AuthOpts::authentication_data, AuthOpts::user_property, AuthOpts::build
#[kani::proof]
#[kani::unwind(8)]
pub(crate) fn enc_auth_opts() {
    let reason = any_auth_reason();
    let u0 = true;
    let mut o = AuthOpts::new().reason(reason).authentication_method("mt").authentication_data(b"\x05\x06");
    if u0 {
        o = o.user_property(("k", "v"));
    }
    let packet = o.build().unwrap();
    let mut buf = BytesMut::with_capacity(packet.packet_len());
    packet.encode(&mut buf);
    let users = [(&b"k"[..], &b"v"[..])];
    let pe = refdec::Exp {
        ids: &[21, 22, 31],
        present: &[true, true, false],
        ival: &[0, 0, 0],
        sval: &[b"mt", b"\x05\x06", b""],
        users: &users,
        n_users: u0 as usize,
    };
    let d = refdec::auth(&buf[..], &pe);
    assert!(!matches!(d, Err(refdec::E_STRUCT)), "AUTH is well-formed: remaining length and property length equal what follows");
    assert!(d.is_ok(), "AUTH properties are exactly the supplied ones");
    assert!(d.unwrap().0 == reason as u8, "reason code");
    kani::cover!(u0, "with user property");
    core::mem::forget(packet);
}

// --------------------------------------------------------------------------------------- PUBLISH

fn enc_publish_body(qos: QoS, sym: u32, bg: bool, sl: usize, nu: usize) {
    let mut o = PublishOpts::new();
    let retain: bool = kani::any();
    if present(sym, bg, 0) {
        o = o.retain(retain);
    } else {
        kani::assume(!retain);
    }
    let has_qos = qos != QoS::AtMostOnce || present(sym, bg, 10);
    if has_qos {
        o = o.qos(qos);
    }
    let topic = pre("t/x", if sl == 0 { 1 } else { sl });
    let has_topic = present(sym, true, 11);
    if has_topic {
        o = o.topic_name(topic);
    }
    let (p_pfi, pfi): (bool, bool) = (present(sym, bg, 1), kani::any());
    if p_pfi {
        o = o.payload_format_indicator(pfi);
    }
    let (p_ta, ta): (bool, u16) = (present(sym, bg, 2), kani::any());
    kani::assume(ta != 0);
    if p_ta {
        o = o.topic_alias(ta);
    }
    let (p_mei, mei): (bool, u32) = (present(sym, bg, 3), kani::any());
    if p_mei {
        o = o.message_expiry_interval(secs(mei));
    }
    let p_cd = present(sym, bg, 4);
    let cd = preb(b"\x09\x08\x07", sl);
    if p_cd {
        o = o.correlation_data(cd);
    }
    let p_rt = present(sym, bg, 5);
    let rt = pre("r/t", sl);
    if p_rt {
        o = o.response_topic(rt);
    }
    let p_ct = present(sym, bg, 6);
    let ct = pre("c/t", sl);
    if p_ct {
        o = o.content_type(ct);
    }
    let u0 = nu >= 1;
    let u1 = nu >= 2;
    let n_user = nu;
    let (k0, v0, k1, v1) = (pre("k", sl), pre("v", sl), pre("l", sl), pre("w", sl));
    if u0 {
        o = o.user_property((k0, v0));
    }
    if u1 {
        o = o.user_property((k1, v1));
    }
    let p_pl = present(sym, bg, 9);
    let pl = preb(b"\x00\xfe\x7f", sl);
    if p_pl {
        o = o.payload(pl);
    }
    let pid: u16 = kani::any();
    kani::assume(pid != 0);
    if qos != QoS::AtMostOnce {
        o = o.packet_identifier(pid);
    }
    let built = o.build();
    if !has_topic {
        assert!(built.is_err(), "a publish without a topic is refused before anything is written");
        kani::cover!(true, "opt: refusal reachable");
        core::mem::forget(built);
        return;
    }
    let packet = built.unwrap();
    let mut buf = BytesMut::with_capacity(packet.packet_len());
    packet.encode(&mut buf);
    assert!(buf.len() == packet.packet_len(), "packet_len() equals the bytes written");
    let users = [(k0.as_bytes(), v0.as_bytes()), (k1.as_bytes(), v1.as_bytes())];
    let pe = refdec::Exp {
        ids: &[1, 35, 2, 9, 8, 3],
        present: &[p_pfi, p_ta, p_mei, p_cd, p_rt, p_ct],
        ival: &[pfi as u32, ta as u32, mei, 0, 0, 0],
        sval: &[&[], &[], &[], cd, rt.as_bytes(), ct.as_bytes()],
        users: &users,
        n_users: n_user,
    };
    let d = refdec::publish(&buf[..], &pe);
    assert!(!matches!(d, Err(refdec::E_STRUCT)), "PUBLISH is well-formed: remaining length and property length equal what follows");
    assert!(d.is_ok(), "PUBLISH properties are exactly the supplied ones");
    let d = d.unwrap();
    assert!(!d.dup, "DUP is 0 on a first transmission");
    assert!(d.qos == qos as u8, "QoS at bits 1-2");
    assert!(d.retain == retain, "retain at bit 0");
    assert!(eq(d.topic, topic.as_bytes()), "topic name");
    assert!(d.packet_id == if qos == QoS::AtMostOnce { None } else { Some(pid) }, "packet identifier present iff QoS > 0");
    assert!(eq(d.payload, if p_pl { pl } else { b"" }), "payload");
    kani::cover!(true, "opt: accepted packet re-decoded");
    core::mem::forget(packet);
}

macro_rules! enc_publish {
    ($name:ident, $qos:expr, $sym:expr, $bg:expr, $sl:expr, $nu:expr) => {
        #[kani::proof]
        #[kani::unwind(10)]
        pub(crate) fn $name() {
            enc_publish_body($qos, $sym, $bg, $sl, $nu);
        }
    };
}
const P_INT: u32 = 0b1111; // retain, payload format indicator, topic alias, message expiry
const P_STR: u32 = 0b111 << 4; // correlation data, response topic, content type
const P_MISC: u32 = (1 << 9) | (1 << 10) | (1 << 11); // payload, explicit QoS 0, topic

//@ h name=enc_publish_q0_int_none props=C01,C06 tier=quick cap=small to=1200
//@ h name=enc_publish_q1_int_all props=C01,C06 tier=thorough cap=small to=1800
//@ h name=enc_publish_q2_str_none props=C01,C06 tier=quick cap=small to=1200
//@ h name=enc_publish_q1_str_all props=C01,C06 tier=quick cap=small to=1800
//@ h name=enc_publish_q2_int_all props=C01,C06 tier=thorough cap=small to=1800
//@ h name=enc_publish_q0_misc_all props=C01,C06 tier=quick cap=small to=1800
//@ h name=enc_publish_q1_misc_none props=C01,C06 tier=thorough cap=small to=1200
//@ claim: PublishOpts -> PublishTx::encode: a request without a topic is refused by build(); otherwise packet_len() equals the bytes written and the reference decoder finds exactly one well-formed PUBLISH with DUP=0, the requested QoS/retain/topic/payload, a packet identifier iff QoS>0, and exactly the supplied properties
//@ bounds: QoS concrete per harness; a group of 3-4 optional fields with symbolic presence, the rest all absent (_none) or all present (_all); integers/booleans full range; strings/binaries/payload concrete content of length 3 (_all) or 0 (_none; topic 1); user properties 0 (_none) or 2 (_all); packet identifier any non-zero u16
//@ funcs: PublishOpts::*, PublishTxBuilder::build/validate, PublishTx::encode, PublishTx::packet_len, PublishTx::remaining_len, PublishTx::property_len, PublishTx::fixed_hdr
enc_publish!(enc_publish_q0_int_none, QoS::AtMostOnce, P_INT, false, 0, 0);
enc_publish!(enc_publish_q1_int_all, QoS::AtLeastOnce, P_INT, true, 3, 2);
enc_publish!(enc_publish_q2_str_none, QoS::ExactlyOnce, P_STR, false, 0, 0);
enc_publish!(enc_publish_q1_str_all, QoS::AtLeastOnce, P_STR, true, 3, 2);
enc_publish!(enc_publish_q2_int_all, QoS::ExactlyOnce, P_INT, true, 3, 1);
enc_publish!(enc_publish_q0_misc_all, QoS::AtMostOnce, P_MISC, true, 3, 2);
enc_publish!(enc_publish_q1_misc_none, QoS::AtLeastOnce, P_MISC, false, 0, 0);

// ------------------------------------------------------------------- SUBSCRIBE / UNSUBSCRIBE

fn any_rh() -> (RetainHandling, u8) {
    let r: u8 = kani::any();
    kani::assume(r < 3);
    (
        match r {
            0 => RetainHandling::SendOnSubscribe,
            1 => RetainHandling::SendIfNoSubscription,
            _ => RetainHandling::NoSendOnSubscribe,
        },
        r,
    )
}

fn any_subscription() -> (SubscriptionOpts, u8) {
    let mut s = SubscriptionOpts::new();
    // defaults of SubscriptionOpts: maximum QoS 2, no local 0, retain as published 0, retain handling 0
    let mut want = 2u8;
    if kani::any() {
        let q = any_qos();
        s = s.maximum_qos(q);
        want = (want & !3) | q as u8;
    }
    if kani::any() {
        let b: bool = kani::any();
        s = s.no_local(b);
        want |= (b as u8) << 2;
    }
    if kani::any() {
        let b: bool = kani::any();
        s = s.retain_as_published(b);
        want |= (b as u8) << 3;
    }
    if kani::any() {
        let (rh, r) = any_rh();
        s = s.retain_handling(rh);
        want |= r << 4;
    }
    (s, want)
}

//@ h name=enc_subscribe_0 props=C01 tier=quick cap=small to=900
//@ h name=enc_subscribe_1 props=C01 tier=quick cap=small to=1200
//@ h name=enc_subscribe_2 props=C01 tier=quick cap=small to=1800
//@ claim: SubscribeOpts/SubscriptionOpts -> SubscribeTx::encode: a request without a topic filter is refused by build(); otherwise packet_len() equals the bytes written, and the reference decoder finds exactly one well-formed SUBSCRIBE with the assigned packet and subscription identifiers, the supplied user properties, and each filter followed by an options byte with maximum QoS at bits 0-1, No Local at bit 2, Retain As Published at bit 3, Retain Handling at bits 4-5, reserved bits 6-7 zero
//@ bounds: 0 / 1 / 2 topic filters and 0 / 1 / 2 user properties (concrete per harness; filters are concrete strings of length 2 and 1), every combination of option setters and values, packet identifier any non-zero u16, subscription identifier any 1..=268435455
//@ funcs: SubscribeOpts::*, SubscriptionOpts::*, SubscribeTxBuilder::build/validate, SubscribeTx::encode, SubscribeTx::packet_len, SubscribeTx::remaining_len, SubscribeTx::property_len, SubscriptionOptions::encode
fn enc_subscribe_body(n: usize, nu: usize) {
    let (s0, w0) = any_subscription();
    let (s1, w1) = any_subscription();
    let pid: u16 = kani::any();
    kani::assume(pid != 0);
    let sid: u32 = kani::any();
    kani::assume(sid != 0 && sid <= 0x0fff_ffff);
    let u0 = nu >= 1;
    let u1 = nu >= 2;
    let mut o = SubscribeOpts::new();
    if n >= 1 {
        o = o.subscription("a/", s0);
    }
    if n >= 2 {
        o = o.subscription("b", s1);
    }
    if u0 {
        o = o.user_property(("k", "v"));
    }
    if u1 {
        o = o.user_property(("l", ""));
    }
    let built = o.packet_identifier(pid).subscription_identifier(sid).build();
    if n == 0 {
        assert!(built.is_err(), "a subscribe without a topic filter is refused before anything is written");
        kani::cover!(true, "opt: refusal reachable");
        core::mem::forget(built);
        return;
    }
    let packet = built.unwrap();
    let mut buf = BytesMut::with_capacity(packet.packet_len());
    packet.encode(&mut buf);
    assert!(buf.len() == packet.packet_len(), "packet_len() equals the bytes written");
    let users = [(&b"k"[..], &b"v"[..]), (&b"l"[..], &b""[..])];
    let pe = refdec::Exp { ids: &[11], present: &[true], ival: &[sid], sval: &[&[]], users: &users, n_users: u0 as usize + u1 as usize };
    let d = refdec::subscribe(&buf[..], &pe);
    assert!(!matches!(d, Err(refdec::E_STRUCT)), "SUBSCRIBE is well-formed: remaining length and property length equal what follows");
    assert!(!matches!(d, Err(refdec::E_VALUE)), "subscription options byte has no reserved bit set and legal QoS / retain handling; properties carry the supplied values");
    assert!(d.is_ok(), "SUBSCRIBE properties are exactly the assigned subscription identifier and the supplied user properties");
    let d = d.unwrap();
    assert!(d.packet_id == pid, "packet identifier");
    assert!(d.n == n, "number of topic filters");
    assert!(eq(d.filters[0].0, b"a/") && d.filters[0].1 == w0, "first filter and its options byte");
    if n == 2 {
        assert!(eq(d.filters[1].0, b"b") && d.filters[1].1 == w1, "second filter and its options byte");
    }
    kani::cover!(w0 & 0x3c != 0, "opt: non-default options");
    core::mem::forget(packet);
}

macro_rules! enc_sub {
    ($name:ident, $n:expr, $nu:expr) => {
        #[kani::proof]
        #[kani::unwind(8)]
        pub(crate) fn $name() {
            enc_subscribe_body($n, $nu);
        }
    };
}
enc_sub!(enc_subscribe_0, 0, 1);
enc_sub!(enc_subscribe_1, 1, 0);
enc_sub!(enc_subscribe_2, 2, 2);

//@ h name=enc_unsubscribe_0 props=C01 tier=quick cap=small to=900
//@ h name=enc_unsubscribe_1 props=C01 tier=thorough cap=small to=1200
//@ h name=enc_unsubscribe_2 props=C01 tier=quick cap=small to=1200
//@ claim: UnsubscribeOpts -> UnsubscribeTx::encode: a request without a topic filter is refused by build(); otherwise packet_len() equals the bytes written and the reference decoder finds exactly one well-formed UNSUBSCRIBE with the assigned packet identifier, the supplied user properties and filters in order
//@ bounds: 0 / 1 / 2 topic filters and user properties (concrete per harness; filters of length 2 and 0), packet identifier any non-zero u16
//@ funcs: UnsubscribeOpts::*, UnsubscribeTxBuilder::build/validate, UnsubscribeTx::encode, UnsubscribeTx::packet_len, UnsubscribeTx::remaining_len, UnsubscribeTx::property_len
fn enc_unsubscribe_body(n: usize, nu: usize) {
    let pid: u16 = kani::any();
    kani::assume(pid != 0);
    let u0 = nu >= 1;
    let u1 = nu >= 2;
    let mut o = UnsubscribeOpts::new();
    if n >= 1 {
        o = o.topic_filter("a/");
    }
    if n >= 2 {
        o = o.topic_filter("");
    }
    if u0 {
        o = o.user_property(("k", "v"));
    }
    if u1 {
        o = o.user_property(("l", ""));
    }
    let built = o.packet_identifier(pid).build();
    if n == 0 {
        assert!(built.is_err(), "an unsubscribe without a topic filter is refused before anything is written");
        kani::cover!(true, "opt: refusal reachable");
        core::mem::forget(built);
        return;
    }
    let packet = built.unwrap();
    let mut buf = BytesMut::with_capacity(packet.packet_len());
    packet.encode(&mut buf);
    assert!(buf.len() == packet.packet_len(), "packet_len() equals the bytes written");
    let users = [(&b"k"[..], &b"v"[..]), (&b"l"[..], &b""[..])];
    let pe = refdec::Exp { ids: &[], present: &[], ival: &[], sval: &[], users: &users, n_users: u0 as usize + u1 as usize };
    let d = refdec::unsubscribe(&buf[..], &pe);
    assert!(!matches!(d, Err(refdec::E_STRUCT)), "UNSUBSCRIBE is well-formed: remaining length and property length equal what follows");
    assert!(d.is_ok(), "UNSUBSCRIBE properties are exactly the supplied user properties");
    let d = d.unwrap();
    assert!(d.packet_id == pid, "packet identifier");
    assert!(d.n == n, "number of topic filters");
    assert!(eq(d.filters[0], b"a/"), "first filter");
    if n == 2 {
        assert!(eq(d.filters[1], b""), "second filter");
    }
    kani::cover!(true, "opt: accepted packet re-decoded");
    core::mem::forget(packet);
}

macro_rules! enc_unsub {
    ($name:ident, $n:expr, $nu:expr) => {
        #[kani::proof]
        #[kani::unwind(8)]
        pub(crate) fn $name() {
            enc_unsubscribe_body($n, $nu);
        }
    };
}
enc_unsub!(enc_unsubscribe_0, 0, 0);
enc_unsub!(enc_unsubscribe_1, 1, 1);
enc_unsub!(enc_unsubscribe_2, 2, 2);

// ---------------------------------------------------------------------- DISCONNECT / PINGREQ / acks

//@ h name=enc_disconnect_u0 props=C01 tier=quick cap=small to=1200
//@ h name=enc_disconnect_u2 props=C01 tier=quick cap=small to=1200
//@ claim: DisconnectOpts -> DisconnectTx::encode: packet_len() equals the bytes written and the reference decoder finds exactly one well-formed DISCONNECT with the supplied reason code, session expiry interval (present iff supplied), reason string and user properties
//@ bounds: every reason code of DisconnectReason, every subset of {session expiry, reason string} with 0 / 2 user properties (concrete per harness), session expiry any u32 (including 0), strings concrete (length 2)
//@ funcs: DisconnectOpts::*, DisconnectTxBuilder::build, DisconnectTx::encode, DisconnectTx::packet_len, DisconnectTx::remaining_len, DisconnectTx::property_len
fn enc_disconnect_body(nu: usize) {
    let rb: u8 = kani::any();
    let reason = DisconnectReason::try_from(rb);
    kani::assume(reason.is_ok());
    let reason = reason.unwrap();
    let has_reason: bool = kani::any();
    let (p_sei, sei): (bool, u32) = (kani::any(), kani::any());
    let p_rs: bool = kani::any();
    let u0 = nu >= 1;
    let u1 = nu >= 2;
    let mut o = DisconnectOpts::new();
    if has_reason {
        o = o.reason(reason);
    }
    if p_sei {
        o = o.session_expiry_interval(secs(sei));
    }
    if p_rs {
        o = o.reason_string("rs");
    }
    if u0 {
        o = o.user_property(("k", "v"));
    }
    if u1 {
        o = o.user_property(("l", ""));
    }
    let packet = o.build().unwrap();
    let mut buf = BytesMut::with_capacity(packet.packet_len());
    packet.encode(&mut buf);
    assert!(buf.len() == packet.packet_len(), "packet_len() equals the bytes written");
    let users = [(&b"k"[..], &b"v"[..]), (&b"l"[..], &b""[..])];
    let pe = refdec::Exp { ids: &[17, 31], present: &[p_sei, p_rs], ival: &[sei, 0], sval: &[&[], b"rs"], users: &users, n_users: u0 as usize + u1 as usize };
    let d = refdec::disconnect(&buf[..], &pe);
    assert!(!matches!(d, Err(refdec::E_STRUCT)), "DISCONNECT is well-formed: remaining length and property length equal what follows");
    assert!(!matches!(d, Err(refdec::E_MISSING)), "every supplied DISCONNECT property is on the wire (session expiry interval included, whatever its value)");
    assert!(d.is_ok(), "DISCONNECT properties are exactly the supplied ones");
    let (r, _form) = d.unwrap();
    assert!(r == if has_reason { rb } else { 0 }, "reason code");
    kani::cover!(p_sei && p_rs, "all properties present");
    kani::cover!(!p_sei && !p_rs, "no optional properties");
    core::mem::forget(packet);
}

#[kani::proof]
#[kani::unwind(8)]
pub(crate) fn enc_disconnect_u0() {
    enc_disconnect_body(0);
}
#[kani::proof]
#[kani::unwind(8)]
pub(crate) fn enc_disconnect_u2() {
    enc_disconnect_body(2);
}

//@ h name=enc_pingreq_acks props=C01,C08,C06 tier=quick cap=small to=600
//@ claim: PINGREQ is exactly C0 00; the acknowledgements the client itself originates (PUBACK/PUBREC/PUBCOMP with the default reason, as built by Context::ack, and PUBREL as built by ContextHandle::publish) are the four-byte shortened form <type/flags> 02 <id hi> <id lo> with PUBREL's reserved flags 0010, for every non-zero packet identifier, and packet_len() equals the bytes written
//@ bounds: packet identifier any non-zero u16
//@ funcs: PingreqTx::encode/packet_len, AckTxBuilder::build, AckTx::encode/packet_len/remaining_len/property_len for PubackReason, PubrecReason, PubrelReason, PubcompReason
#[kani::proof]
#[kani::unwind(6)]
pub(crate) fn enc_pingreq_acks() {
    let ping = PingreqTxBuilder::default().build().unwrap();
    let mut buf = BytesMut::with_capacity(ping.packet_len());
    ping.encode(&mut buf);
    assert!(buf.len() == ping.packet_len() && refdec::pingreq(&buf[..]), "PINGREQ is C0 00");
    let id: u16 = kani::any();
    kani::assume(id != 0);
    let nz = NonZero::try_from(id).unwrap();
    macro_rules! one {
        ($builder:ty, $reason:ty, $ptype:expr) => {{
            let mut b = <$builder>::default();
            b.packet_identifier(nz);
            b.reason(<$reason>::default());
            let p = b.build().unwrap();
            let mut buf = BytesMut::with_capacity(p.packet_len());
            p.encode(&mut buf);
            assert!(buf.len() == p.packet_len(), "packet_len() equals the bytes written");
            let d = refdec::ack(&buf[..], $ptype, &refdec::NO_PROPS);
            assert!(d.is_ok(), "acknowledgement is well-formed");
            let d = d.unwrap();
            assert!(d.packet_id == id && d.reason == 0 && d.form == 2, "shortened form carrying the packet identifier");
            core::mem::forget(p);
        }};
    }
    one!(AckTxBuilder<'static, PubackReason>, PubackReason, 4);
    one!(AckTxBuilder<'static, PubrecReason>, PubrecReason, 5);
    one!(PubrelTxBuilder<'static>, PubrelReason, 6);
    one!(AckTxBuilder<'static, PubcompReason>, PubcompReason, 7);
    kani::cover!(id == 0xffff, "maximum packet identifier");
}
