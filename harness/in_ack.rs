// Included at the end of src/codec/ack.rs (scratch copy only): assume-guarantee stubs for the
// acknowledgement encoder, used by the handle_packet step harnesses whose arms await
// Context::ack (values kept in a nested coroutine's state are opaque to symbolic execution, so the
// real builder/length/encode code would be explored along every infeasible branch).
//
// Contracts (established on the REAL functions, for every packet identifier, by
// `enc_pingreq_acks` and `probe_ack_direct`): a builder on which only the packet identifier and
// the default reason were set builds exactly that packet; such a packet has no properties, its
// remaining length is 2.  Anything outside the contract is reported through a "verif bound:"
// assertion (inconclusive), never assumed away.
#[cfg(kani)]
pub(crate) mod verif_in_ack {
    use super::*;

    pub(crate) fn build_stub<'a, ReasonT>(this: &AckTxBuilder<'a, ReasonT>) -> Result<AckTx<'a, ReasonT>, CodecError>
    where
        ReasonT: Default + Clone,
        'a: 'a,
    {
        assert!(this.packet_identifier.is_some(), "verif bound: ack builder contract needs the packet identifier");
        assert!(this.reason_string.is_none() && this.user_property.is_none(), "verif bound: ack builder contract covers the plain acknowledgement only");
        let reason = match &this.reason {
            Some(r) => r.clone(),
            None => ReasonT::default(),
        };
        Ok(AckTx { packet_identifier: this.packet_identifier.unwrap(), reason, reason_string: None, user_property: Vec::new() })
    }

    pub(crate) fn property_len_stub<'a, ReasonT>(this: &AckTx<'a, ReasonT>) -> VarSizeInt
    where
        AckTx<'a, ReasonT>: PacketID,
        ReasonT: Default + PartialEq + ByteLen,
        'a: 'a,
    {
        assert!(this.reason_string.is_none() && this.user_property.len() == 0, "verif bound: ack length contract covers the plain acknowledgement only");
        VarSizeInt::try_from(0usize).unwrap()
    }

    pub(crate) fn remaining_len_stub<'a, ReasonT>(this: &AckTx<'a, ReasonT>) -> VarSizeInt
    where
        AckTx<'a, ReasonT>: PacketID,
        ReasonT: Default + PartialEq + ByteLen,
        'a: 'a,
    {
        assert!(this.reason == ReasonT::default() && this.reason_string.is_none() && this.user_property.len() == 0, "verif bound: ack length contract covers the plain acknowledgement only");
        VarSizeInt::try_from(2usize).unwrap()
    }
}
