//! Verification model of `futures-channel` (single-threaded semantics, leaked shared state).
pub mod oneshot {
    use core::future::Future;
    use core::pin::Pin;
    use core::task::{Context, Poll, Waker};
    use futures_core::future::FusedFuture;

    struct Inner<T> { val: Option<T>, tx_alive: bool, rx_alive: bool, rx_waker: Option<Waker>, complete: bool }
    pub struct Sender<T> { inner: *mut Inner<T> }
    pub struct Receiver<T> { inner: *mut Inner<T> }
    unsafe impl<T: Send> Send for Sender<T> {}
    unsafe impl<T: Send> Sync for Sender<T> {}
    unsafe impl<T: Send> Send for Receiver<T> {}
    unsafe impl<T: Send> Sync for Receiver<T> {}
    impl<T> Unpin for Receiver<T> {}
    impl<T> Unpin for Sender<T> {}

    #[derive(Clone, Copy, PartialEq, Eq, Debug)]
    pub struct Canceled;
    impl core::fmt::Display for Canceled {
        fn fmt(&self, f: &mut core::fmt::Formatter<'_>) -> core::fmt::Result { f.write_str("oneshot canceled") }
    }
    impl std::error::Error for Canceled {}

    pub fn channel<T>() -> (Sender<T>, Receiver<T>) {
        let inner = Box::leak(Box::new(Inner { val: None, tx_alive: true, rx_alive: true, rx_waker: None, complete: false })) as *mut Inner<T>;
        (Sender { inner }, Receiver { inner })
    }
    impl<T> Sender<T> {
        pub fn send(self, t: T) -> Result<(), T> {
            let p = self.inner; let i = unsafe { &mut *p };
            if !i.rx_alive { return Err(t); }
            i.val = Some(t);
            Ok(())
            // Drop of self wakes the receiver.
        }
        pub fn is_canceled(&self) -> bool { unsafe { !(*self.inner).rx_alive } }
        pub fn poll_canceled(&mut self, _cx: &mut Context<'_>) -> Poll<()> {
            if self.is_canceled() { Poll::Ready(()) } else { Poll::Pending }
        }
    }
    impl<T> core::fmt::Debug for Sender<T> {
        fn fmt(&self, f: &mut core::fmt::Formatter<'_>) -> core::fmt::Result { f.write_str("Sender") }
    }
    impl<T> core::fmt::Debug for Receiver<T> {
        fn fmt(&self, f: &mut core::fmt::Formatter<'_>) -> core::fmt::Result { f.write_str("Receiver") }
    }
    impl<T> Drop for Sender<T> {
        fn drop(&mut self) {
            let p = self.inner; let i = unsafe { &mut *p };
            i.tx_alive = false;
            if let Some(w) = i.rx_waker.take() { w.wake(); }
        }
    }
    impl<T> Receiver<T> {
        pub fn close(&mut self) { unsafe { (*self.inner).rx_alive = false; } }
        pub fn try_recv(&mut self) -> Result<Option<T>, Canceled> {
            let p = self.inner; let i = unsafe { &mut *p };
            if let Some(v) = i.val.take() { i.complete = true; return Ok(Some(v)); }
            if !i.tx_alive { Err(Canceled) } else { Ok(None) }
        }
    }
    impl<T> Future for Receiver<T> {
        type Output = Result<T, Canceled>;
        fn poll(mut self: Pin<&mut Self>, cx: &mut Context<'_>) -> Poll<Self::Output> {
            let p = self.inner; let i = unsafe { &mut *p };
            if let Some(v) = i.val.take() { i.complete = true; return Poll::Ready(Ok(v)); }
            if !i.tx_alive { i.complete = true; return Poll::Ready(Err(Canceled)); }
            i.rx_waker = Some(cx.waker().clone());
            Poll::Pending
        }
    }
    impl<T> FusedFuture for Receiver<T> {
        fn is_terminated(&self) -> bool { unsafe { (*self.inner).complete } }
    }
    impl<T> Drop for Receiver<T> {
        fn drop(&mut self) { let p = self.inner; let i = unsafe { &mut *p }; i.rx_alive = false; i.rx_waker = None; }
    }
}

pub mod mpsc {
    use core::pin::Pin;
    use core::task::{Context, Poll, Waker};
    use futures_core::stream::{FusedStream, Stream};
    use std::collections::VecDeque;

    struct Inner<T> { q: VecDeque<T>, senders: usize, rx_alive: bool, rx_waker: Option<Waker>, terminated: bool }
    pub struct UnboundedSender<T> { inner: *mut Inner<T> }
    pub struct UnboundedReceiver<T> { inner: *mut Inner<T> }
    unsafe impl<T: Send> Send for UnboundedSender<T> {}
    unsafe impl<T: Send> Sync for UnboundedSender<T> {}
    unsafe impl<T: Send> Send for UnboundedReceiver<T> {}
    impl<T> Unpin for UnboundedReceiver<T> {}

    pub struct TrySendError<T> { val: T }
    impl<T> TrySendError<T> {
        pub fn into_inner(self) -> T { self.val }
        pub fn is_disconnected(&self) -> bool { true }
        pub fn is_full(&self) -> bool { false }
    }
    impl<T> core::fmt::Debug for TrySendError<T> {
        fn fmt(&self, f: &mut core::fmt::Formatter<'_>) -> core::fmt::Result { f.write_str("TrySendError") }
    }
    impl<T> core::fmt::Display for TrySendError<T> {
        fn fmt(&self, f: &mut core::fmt::Formatter<'_>) -> core::fmt::Result { f.write_str("send failed because receiver is gone") }
    }
    #[derive(Debug)]
    pub struct TryRecvError;

    pub fn unbounded<T>() -> (UnboundedSender<T>, UnboundedReceiver<T>) {
        let inner = Box::leak(Box::new(Inner { q: VecDeque::new(), senders: 1, rx_alive: true, rx_waker: None, terminated: false })) as *mut Inner<T>;
        (UnboundedSender { inner }, UnboundedReceiver { inner })
    }
    impl<T> UnboundedSender<T> {
        pub fn unbounded_send(&self, t: T) -> Result<(), TrySendError<T>> {
            let p = self.inner; let i = unsafe { &mut *p };
            if !i.rx_alive { return Err(TrySendError { val: t }); }
            i.q.push_back(t);
            if let Some(w) = i.rx_waker.take() { w.wake(); }
            Ok(())
        }
        pub fn is_closed(&self) -> bool { unsafe { !(*self.inner).rx_alive } }
    }
    impl<T> Clone for UnboundedSender<T> {
        fn clone(&self) -> Self { unsafe { (*self.inner).senders += 1; } UnboundedSender { inner: self.inner } }
    }
    impl<T> Drop for UnboundedSender<T> {
        fn drop(&mut self) {
            let p = self.inner; let i = unsafe { &mut *p };
            i.senders -= 1;
            if i.senders == 0 { if let Some(w) = i.rx_waker.take() { w.wake(); } }
        }
    }
    impl<T> UnboundedReceiver<T> {
        pub fn close(&mut self) { unsafe { (*self.inner).rx_alive = false; } }
        /// Ok(Some) a message; Ok(None) closed and drained; Err empty but senders remain.
        pub fn try_next(&mut self) -> Result<Option<T>, TryRecvError> {
            let p = self.inner; let i = unsafe { &mut *p };
            if let Some(v) = i.q.pop_front() { return Ok(Some(v)); }
            if i.senders == 0 { Ok(None) } else { Err(TryRecvError) }
        }
    }
    impl<T> Stream for UnboundedReceiver<T> {
        type Item = T;
        fn poll_next(mut self: Pin<&mut Self>, cx: &mut Context<'_>) -> Poll<Option<T>> {
            let p = self.inner; let i = unsafe { &mut *p };
            if let Some(v) = i.q.pop_front() { return Poll::Ready(Some(v)); }
            if i.senders == 0 { i.terminated = true; return Poll::Ready(None); }
            i.rx_waker = Some(cx.waker().clone());
            Poll::Pending
        }
    }
    impl<T> FusedStream for UnboundedReceiver<T> {
        fn is_terminated(&self) -> bool { unsafe { (*self.inner).terminated } }
    }
    impl<T> Drop for UnboundedReceiver<T> {
        fn drop(&mut self) {
            let p = self.inner; let i = unsafe { &mut *p };
            i.rx_alive = false; i.rx_waker = None;
            // real channel drops queued messages when the receiver goes away
            while let Some(v) = i.q.pop_front() { drop(v); }
        }
    }
}
