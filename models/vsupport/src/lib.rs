//! Helpers for the harnesses mounted inside poster (which is `#![forbid(unsafe_code)]`).
use core::task::{RawWaker, RawWakerVTable, Waker};

/// Stub body for `core::str::from_utf8` in solver builds: accepts exactly ASCII.
/// Multi-byte UTF-8 is outside every claim that uses this stub.
pub fn utf8_ascii_stub(v: &[u8]) -> Result<&str, core::str::Utf8Error> {
    let mut i = 0;
    while i < v.len() {
        if v[i] >= 0x80 {
            return Err(utf8_error());
        }
        i += 1;
    }
    // SAFETY: all bytes < 0x80, hence valid UTF-8.
    Ok(unsafe { core::str::from_utf8_unchecked(v) })
}

fn utf8_error() -> core::str::Utf8Error {
    // Utf8Error has no public constructor.  `from_utf8_mut` does not go through `from_utf8`
    // (which is the function being stubbed), and on this concrete one-byte input it is cheap.
    let mut bad = [0xffu8];
    match core::str::from_utf8_mut(&mut bad) {
        Err(e) => e,
        Ok(_) => unreachable!(),
    }
}

/// A waker that counts how often it was woken (single-threaded use only).
pub struct CountWaker {
    count: core::cell::Cell<usize>,
}
impl CountWaker {
    pub fn new_leaked() -> &'static CountWaker {
        Box::leak(Box::new(CountWaker { count: core::cell::Cell::new(0) }))
    }
    pub fn wakes(&self) -> usize {
        self.count.get()
    }
    pub fn waker(&'static self) -> Waker {
        unsafe { Waker::from_raw(raw(self as *const CountWaker as *const ())) }
    }
}
fn raw(p: *const ()) -> RawWaker {
    fn clone(p: *const ()) -> RawWaker {
        raw(p)
    }
    fn wake(p: *const ()) {
        let w = unsafe { &*(p as *const CountWaker) };
        w.count.set(w.count.get() + 1);
    }
    fn drop(_: *const ()) {}
    static VT: RawWakerVTable = RawWakerVTable::new(clone, wake, wake, drop);
    RawWaker::new(p, &VT)
}

/// Helper for the "well-formed input" harnesses: views bytes that the caller has constrained to
/// ASCII as &str without branching on their (symbolic) content.
pub fn ascii_unchecked(v: &[u8]) -> &str {
    // SAFETY: callers assume every byte < 0x80 (see utf8_assume_ascii_stub in the harnesses).
    unsafe { core::str::from_utf8_unchecked(v) }
}
