//! Verification model of the `bytes` crate (API subset used by poster-rs).
//!
//! * `Bytes`    = `Copy` view onto leaked, immutable memory (`&'static [u8]`); no vtable, no refcount.
//! * `BytesMut` = fixed array `[u8; CAP]` + window `(start, len)`; `split_to`/`split` advance `start`
//!   (O(1), like the real crate's pointer bump), `freeze` leaks the whole struct and returns a view.
//!
//! Observable behaviour (contents, lengths, panics and their messages' leading words) follows
//! bytes 1.x. Capacity is never observable through the API subset poster uses; exceeding `CAP` is a
//! model assertion whose message starts with "bytes model:" so the driver can classify it as
//! *bound exceeded* instead of a finding.
//!
//! The invariant `buf[i] == 0 for all i >= hw` ("high-water mark") lets `resize(n, 0)` skip
//! re-zeroing memory that was never written, which keeps the 512-byte chunk resize of
//! `RxPacketStream` cheap for the solver.
#![allow(clippy::all)]
use core::ops::{Deref, DerefMut};

/// The view is stored as a *raw* fat pointer on purpose: a reference would give `Bytes` a niche
/// (non-null), rustc would then encode the discriminant of enums such as poster's `Property` or
/// `RxPacket` in that pointer, and CBMC's symbolic execution cannot decide pointer-valued
/// discriminants, which turns every `match` on such an enum into a full case split.
pub struct Bytes {
    data: *const [u8],
}
// Clone but deliberately not Copy: the real `Bytes` is not Copy, and harness code must compile
// against both.
impl Clone for Bytes {
    fn clone(&self) -> Self {
        Bytes { data: self.data }
    }
}
unsafe impl Send for Bytes {}
unsafe impl Sync for Bytes {}

impl Default for Bytes {
    fn default() -> Self {
        Bytes::new()
    }
}
impl PartialEq for Bytes {
    fn eq(&self, o: &Bytes) -> bool {
        self.s() == o.s()
    }
}
impl Eq for Bytes {}
impl PartialOrd for Bytes {
    fn partial_cmp(&self, o: &Bytes) -> Option<core::cmp::Ordering> {
        self.s().partial_cmp(o.s())
    }
}
impl Ord for Bytes {
    fn cmp(&self, o: &Bytes) -> core::cmp::Ordering {
        self.s().cmp(o.s())
    }
}
impl core::hash::Hash for Bytes {
    fn hash<H: core::hash::Hasher>(&self, h: &mut H) {
        self.s().hash(h)
    }
}

impl core::fmt::Debug for Bytes {
    fn fmt(&self, f: &mut core::fmt::Formatter<'_>) -> core::fmt::Result {
        core::fmt::Debug::fmt(self.s(), f)
    }
}

const EMPTY: &[u8] = &[];

impl Bytes {
    #[inline]
    fn s(&self) -> &'static [u8] {
        // SAFETY: `data` always comes from a `&'static [u8]` (static or leaked memory).
        unsafe { &*self.data }
    }
    #[inline]
    const fn of(s: &'static [u8]) -> Bytes {
        Bytes { data: s as *const [u8] }
    }
    pub const fn new() -> Self {
        Bytes::of(EMPTY)
    }
    pub const fn from_static(s: &'static [u8]) -> Self {
        Bytes::of(s)
    }
    pub fn copy_from_slice(s: &[u8]) -> Self {
        Bytes::of(Box::leak(s.to_vec().into_boxed_slice()))
    }
    pub fn len(&self) -> usize {
        self.s().len()
    }
    pub fn is_empty(&self) -> bool {
        self.s().is_empty()
    }
    pub fn split_to(&mut self, at: usize) -> Bytes {
        assert!(at <= self.len(), "split_to out of bounds: {:?} <= {:?}", at, self.len());
        let (a, b) = self.s().split_at(at);
        self.data = b;
        Bytes::of(a)
    }
    pub fn split_off(&mut self, at: usize) -> Bytes {
        assert!(at <= self.len(), "split_off out of bounds: {:?} <= {:?}", at, self.len());
        let (a, b) = self.s().split_at(at);
        self.data = a;
        Bytes::of(b)
    }
    pub fn slice(&self, r: core::ops::Range<usize>) -> Bytes {
        Bytes::of(&self.s()[r])
    }
    pub fn truncate(&mut self, n: usize) {
        if n < self.len() {
            self.data = &self.s()[..n];
        }
    }
    pub fn clear(&mut self) {
        self.data = EMPTY;
    }
}
impl Deref for Bytes {
    type Target = [u8];
    fn deref(&self) -> &[u8] {
        self.s()
    }
}
impl AsRef<[u8]> for Bytes {
    fn as_ref(&self) -> &[u8] {
        self.s()
    }
}
impl core::borrow::Borrow<[u8]> for Bytes {
    fn borrow(&self) -> &[u8] {
        self.s()
    }
}
impl From<Vec<u8>> for Bytes {
    fn from(v: Vec<u8>) -> Self {
        Bytes::of(Box::leak(v.into_boxed_slice()))
    }
}
impl From<Box<[u8]>> for Bytes {
    fn from(v: Box<[u8]>) -> Self {
        Bytes::of(Box::leak(v))
    }
}
impl From<String> for Bytes {
    fn from(v: String) -> Self {
        Bytes::from(v.into_bytes())
    }
}
impl From<&'static [u8]> for Bytes {
    fn from(v: &'static [u8]) -> Self {
        Bytes::of(v)
    }
}
impl From<&'static str> for Bytes {
    fn from(v: &'static str) -> Self {
        Bytes::of(v.as_bytes())
    }
}
impl From<BytesMut> for Bytes {
    fn from(v: BytesMut) -> Self {
        v.freeze()
    }
}
impl PartialEq<[u8]> for Bytes {
    fn eq(&self, o: &[u8]) -> bool {
        self.s() == o
    }
}
impl PartialEq<&[u8]> for Bytes {
    fn eq(&self, o: &&[u8]) -> bool {
        self.s() == *o
    }
}
impl PartialEq<Bytes> for [u8] {
    fn eq(&self, o: &Bytes) -> bool {
        self == o.s()
    }
}
impl PartialEq<Bytes> for &[u8] {
    fn eq(&self, o: &Bytes) -> bool {
        *self == o.s()
    }
}
impl<const N: usize> PartialEq<[u8; N]> for Bytes {
    fn eq(&self, o: &[u8; N]) -> bool {
        self.s() == &o[..]
    }
}
impl<const N: usize> PartialEq<&[u8; N]> for Bytes {
    fn eq(&self, o: &&[u8; N]) -> bool {
        self.s() == &o[..]
    }
}
impl PartialEq<Vec<u8>> for Bytes {
    fn eq(&self, o: &Vec<u8>) -> bool {
        self.s() == &o[..]
    }
}
impl PartialEq<Bytes> for Vec<u8> {
    fn eq(&self, o: &Bytes) -> bool {
        &self[..] == o.s()
    }
}
impl PartialEq<str> for Bytes {
    fn eq(&self, o: &str) -> bool {
        self.s() == o.as_bytes()
    }
}
impl PartialEq<&str> for Bytes {
    fn eq(&self, o: &&str) -> bool {
        self.s() == o.as_bytes()
    }
}
impl PartialEq<BytesMut> for Bytes {
    fn eq(&self, o: &BytesMut) -> bool {
        self.s() == &o[..]
    }
}
impl IntoIterator for Bytes {
    type Item = u8;
    type IntoIter = core::iter::Copied<core::slice::Iter<'static, u8>>;
    fn into_iter(self) -> Self::IntoIter {
        self.s().iter().copied()
    }
}
impl<'a> IntoIterator for &'a Bytes {
    type Item = &'a u8;
    type IntoIter = core::slice::Iter<'a, u8>;
    fn into_iter(self) -> Self::IntoIter {
        self.s().iter()
    }
}

#[cold]
fn panic_advance(cnt: usize, rem: usize) -> ! {
    panic!("advance out of bounds: the len is {} but advancing by {}", rem, cnt);
}

pub trait Buf {
    fn remaining(&self) -> usize;
    fn chunk(&self) -> &[u8];
    fn advance(&mut self, cnt: usize);
    fn has_remaining(&self) -> bool {
        self.remaining() > 0
    }
    fn get_u8(&mut self) -> u8 {
        if self.remaining() < 1 {
            panic_advance(1, 0);
        }
        let v = self.chunk()[0];
        self.advance(1);
        v
    }
    fn get_u16(&mut self) -> u16 {
        if self.remaining() < 2 {
            panic_advance(2, self.remaining());
        }
        let c = self.chunk();
        let v = ((c[0] as u16) << 8) | c[1] as u16;
        self.advance(2);
        v
    }
    fn get_u32(&mut self) -> u32 {
        if self.remaining() < 4 {
            panic_advance(4, self.remaining());
        }
        let c = self.chunk();
        let v = ((c[0] as u32) << 24) | ((c[1] as u32) << 16) | ((c[2] as u32) << 8) | c[3] as u32;
        self.advance(4);
        v
    }
    fn copy_to_bytes(&mut self, len: usize) -> Bytes {
        if self.remaining() < len {
            panic_advance(len, self.remaining());
        }
        let b = Bytes::copy_from_slice(&self.chunk()[..len]);
        self.advance(len);
        b
    }
}
impl Buf for Bytes {
    fn remaining(&self) -> usize {
        self.len()
    }
    fn chunk(&self) -> &[u8] {
        self.s()
    }
    fn advance(&mut self, cnt: usize) {
        assert!(
            cnt <= self.len(),
            "cannot advance past `remaining`: {:?} <= {:?}",
            cnt,
            self.len()
        );
        self.data = &self.s()[cnt..];
    }
    fn copy_to_bytes(&mut self, len: usize) -> Bytes {
        self.split_to(len)
    }
}
impl Buf for &[u8] {
    fn remaining(&self) -> usize {
        self.len()
    }
    fn chunk(&self) -> &[u8] {
        self
    }
    fn advance(&mut self, cnt: usize) {
        if self.len() < cnt {
            panic_advance(cnt, self.len());
        }
        *self = &self[cnt..];
    }
}

pub trait BufMut {
    fn put_slice(&mut self, s: &[u8]);
    fn put_u8(&mut self, v: u8) {
        self.put_slice(&[v])
    }
    fn put_u16(&mut self, v: u16) {
        self.put_slice(&v.to_be_bytes())
    }
    fn put_u32(&mut self, v: u32) {
        self.put_slice(&v.to_be_bytes())
    }
    fn put_u64(&mut self, v: u64) {
        self.put_slice(&v.to_be_bytes())
    }
    fn put<T: Buf>(&mut self, src: T)
    where
        Self: Sized,
    {
        // All `Buf` implementors of this model are single-chunk.
        self.put_slice(src.chunk())
    }
}

#[cfg(feature = "cap_huge")]
pub const CAP: usize = 2304;
#[cfg(all(feature = "cap_big", not(feature = "cap_huge")))]
pub const CAP: usize = 1152;
#[cfg(all(feature = "cap_mid", not(any(feature = "cap_big", feature = "cap_huge"))))]
pub const CAP: usize = 192;
#[cfg(not(any(feature = "cap_mid", feature = "cap_big", feature = "cap_huge")))]
pub const CAP: usize = 96;

/// `BytesMut` = window `(start, len)` onto shared, leaked storage `[u8; CAP]` (like the real
/// crate's shared allocation): `split_to` / `split` / `freeze` are O(1) and copy nothing, the
/// halves own disjoint windows.  `limit` is the end of the region this handle may grow into (a
/// split-off front cannot grow into its sibling; the real crate would reallocate, the model
/// reports "bytes model: capacity exceeded").  `hw` is shared per storage: every byte at an index
/// >= *hw has never been written and is zero.
pub struct Meta {
    store: *mut [u8; CAP],
    hw: *mut usize,
    start: usize,
    len: usize,
    limit: usize,
}
/// Default: the window lives inline.  Feature `cap_heap`: the window lives in its own leaked heap
/// cell, so that a `BytesMut` kept in the state of a (nested) coroutine is mutated without
/// rewriting the coroutine object (CBMC treats coroutine state, a union, as one bit-vector; every
/// `self.len += n` inside it was a whole-object update).
#[cfg(not(feature = "cap_heap"))]
pub struct BytesMut {
    meta: Meta,
}
#[cfg(feature = "cap_heap")]
pub struct BytesMut {
    meta: *mut Meta,
}
impl BytesMut {
    #[cfg(not(feature = "cap_heap"))]
    #[inline]
    fn mk(meta: Meta) -> BytesMut {
        BytesMut { meta }
    }
    #[cfg(not(feature = "cap_heap"))]
    #[inline]
    fn f(&self) -> &Meta {
        &self.meta
    }
    #[cfg(not(feature = "cap_heap"))]
    #[inline]
    fn fm(&mut self) -> &mut Meta {
        &mut self.meta
    }
    #[cfg(feature = "cap_heap")]
    #[inline]
    fn mk(meta: Meta) -> BytesMut {
        BytesMut { meta: Box::leak(Box::new(meta)) }
    }
    #[cfg(feature = "cap_heap")]
    #[inline]
    fn f(&self) -> &Meta {
        unsafe { &*self.meta }
    }
    #[cfg(feature = "cap_heap")]
    #[inline]
    fn fm(&mut self) -> &mut Meta {
        unsafe { &mut *self.meta }
    }
}
unsafe impl Send for BytesMut {}
unsafe impl Sync for BytesMut {}

impl Clone for BytesMut {
    fn clone(&self) -> Self {
        let mut b = BytesMut::new();
        b.extend_from_slice(&self[..]);
        b
    }
}
impl Default for BytesMut {
    fn default() -> Self {
        Self::new()
    }
}
impl PartialEq for BytesMut {
    fn eq(&self, o: &Self) -> bool {
        self[..] == o[..]
    }
}
impl Eq for BytesMut {}
impl core::fmt::Debug for BytesMut {
    fn fmt(&self, f: &mut core::fmt::Formatter<'_>) -> core::fmt::Result {
        core::fmt::Debug::fmt(&self[..], f)
    }
}
impl BytesMut {
    #[inline]
    fn st(&self) -> &'static mut [u8; CAP] {
        // SAFETY: leaked storage; windows of different handles are disjoint.
        unsafe { &mut *self.f().store }
    }
    #[inline]
    fn hwm(&self) -> &'static mut usize {
        unsafe { &mut *self.f().hw }
    }
    pub fn new() -> Self {
        let store: *mut [u8; CAP] = Box::leak(Box::new([0u8; CAP]));
        let hw: *mut usize = Box::leak(Box::new(0usize));
        BytesMut::mk(Meta { store, hw, start: 0, len: 0, limit: CAP })
    }
    pub fn with_capacity(_n: usize) -> Self {
        Self::new()
    }
    pub fn len(&self) -> usize {
        self.f().len
    }
    pub fn is_empty(&self) -> bool {
        self.f().len == 0
    }
    pub fn capacity(&self) -> usize {
        self.f().limit - self.f().start
    }
    pub fn reserve(&mut self, _n: usize) {}
    pub fn resize(&mut self, n: usize, val: u8) {
        if n <= self.f().len {
            self.fm().len = n;
            return;
        }
        assert!(self.f().start + n <= self.f().limit, "bytes model: capacity exceeded");
        let from = self.f().start + self.f().len;
        let to = self.f().start + n;
        let hw = *self.hwm();
        if val == 0 {
            // bytes at index >= hw are zero already
            let stop = if to < hw { to } else { hw };
            let mut i = from;
            while i < stop {
                self.st()[i] = 0;
                i += 1;
            }
        } else {
            let mut i = from;
            while i < to {
                self.st()[i] = val;
                i += 1;
            }
            if hw < to {
                *self.hwm() = to;
            }
        }
        self.fm().len = n;
    }
    pub fn truncate(&mut self, n: usize) {
        if n < self.f().len {
            self.fm().len = n;
        }
    }
    pub fn clear(&mut self) {
        self.fm().len = 0;
    }
    pub fn extend_from_slice(&mut self, s: &[u8]) {
        assert!(self.f().start + self.f().len + s.len() <= self.f().limit, "bytes model: capacity exceeded");
        let base = self.f().start + self.f().len;
        let mut i = 0;
        while i < s.len() {
            self.st()[base + i] = s[i];
            i += 1;
        }
        self.fm().len += s.len();
        if *self.hwm() < base + s.len() {
            *self.hwm() = base + s.len();
        }
    }
    pub fn freeze(self) -> Bytes {
        let st: &'static [u8; CAP] = self.st();
        Bytes::of(&st[self.f().start..self.f().start + self.f().len])
    }
    pub fn split(&mut self) -> BytesMut {
        let r = BytesMut::mk(Meta { store: self.f().store, hw: self.f().hw, start: self.f().start, len: self.f().len, limit: self.f().start + self.f().len });
        self.fm().start += self.f().len;
        self.fm().len = 0;
        r
    }
    pub fn split_to(&mut self, at: usize) -> BytesMut {
        assert!(at <= self.f().len, "split_to out of bounds: {:?} <= {:?}", at, self.f().len);
        let front = BytesMut::mk(Meta { store: self.f().store, hw: self.f().hw, start: self.f().start, len: at, limit: self.f().start + at });
        self.fm().start += at;
        self.fm().len -= at;
        front
    }
    pub fn split_off(&mut self, at: usize) -> BytesMut {
        assert!(at <= self.f().len, "split_off out of bounds: {:?} <= {:?}", at, self.f().len);
        let back = BytesMut::mk(Meta { store: self.f().store, hw: self.f().hw, start: self.f().start + at, len: self.f().len - at, limit: self.f().limit });
        self.fm().len = at;
        self.fm().limit = self.f().start + at;
        back
    }
}
impl Deref for BytesMut {
    type Target = [u8];
    fn deref(&self) -> &[u8] {
        let st: &'static [u8; CAP] = self.st();
        &st[self.f().start..self.f().start + self.f().len]
    }
}
impl DerefMut for BytesMut {
    fn deref_mut(&mut self) -> &mut [u8] {
        let end = self.f().start + self.f().len;
        if *self.hwm() < end {
            *self.hwm() = end;
        }
        &mut self.st()[self.f().start..end]
    }
}
impl AsRef<[u8]> for BytesMut {
    fn as_ref(&self) -> &[u8] {
        self.deref()
    }
}
impl AsMut<[u8]> for BytesMut {
    fn as_mut(&mut self) -> &mut [u8] {
        self.deref_mut()
    }
}
impl BufMut for BytesMut {
    fn put_slice(&mut self, s: &[u8]) {
        self.extend_from_slice(s)
    }
}
impl Buf for BytesMut {
    fn remaining(&self) -> usize {
        self.f().len
    }
    fn chunk(&self) -> &[u8] {
        self.deref()
    }
    fn advance(&mut self, cnt: usize) {
        assert!(cnt <= self.f().len, "cannot advance past `remaining`: {:?} <= {:?}", cnt, self.f().len);
        self.fm().start += cnt;
        self.fm().len -= cnt;
    }
}
impl From<&[u8]> for BytesMut {
    fn from(s: &[u8]) -> Self {
        let mut b = BytesMut::new();
        b.extend_from_slice(s);
        b
    }
}
impl PartialEq<[u8]> for BytesMut {
    fn eq(&self, o: &[u8]) -> bool {
        &self[..] == o
    }
}
impl PartialEq<&[u8]> for BytesMut {
    fn eq(&self, o: &&[u8]) -> bool {
        &self[..] == *o
    }
}
impl<const N: usize> PartialEq<[u8; N]> for BytesMut {
    fn eq(&self, o: &[u8; N]) -> bool {
        &self[..] == &o[..]
    }
}
impl<const N: usize> PartialEq<&[u8; N]> for BytesMut {
    fn eq(&self, o: &&[u8; N]) -> bool {
        &self[..] == &o[..]
    }
}
impl PartialEq<Vec<u8>> for BytesMut {
    fn eq(&self, o: &Vec<u8>) -> bool {
        &self[..] == &o[..]
    }
}
impl PartialEq<Bytes> for BytesMut {
    fn eq(&self, o: &Bytes) -> bool {
        &self[..] == o.s()
    }
}
