#!/bin/bash
# usage: seed_sweep.sh <repo dir to patch> <seed:check> ...   (e.g. S-C10r3:C10)
# applies each seed to <repo dir> (a scratch copy / snapshot, never /repo's committed state), runs the
# quick check of the property against it, restores the tree; prints one summary line per seed.
cd "$(dirname "$0")/.."
R=$1; shift
for sc in "$@"; do
  s=${sc%%:*}; c=${sc##*:}
  git -C "$R" apply "$PWD/seeded/$s/patch.diff" || { echo "$s: patch does not apply"; continue; }
  t0=$(date +%s)
  VERIF_REPO="$R" ./check $c --tier quick --jobs ${VERIF_JOBS:-6} > /tmp/seed_$s.log 2>&1; rc=$?
  git -C "$R" checkout -- . 
  echo "$s $c exit=$rc wall=$(( $(date +%s)-t0 ))s :: $(grep -E 'violation in' /tmp/seed_$s.log | sed 's/violation in //' | cut -c1-110 | paste -sd'|' | cut -c1-400)"
  grep -E "^INCONCL" /tmp/seed_$s.log | cut -c1-200 | head -3
done
