#!/bin/bash
# applies a seeded patch to /repo, runs a check, restores /repo.  usage: try_seed.sh <seed dir> <check args...>
d=$(realpath "$1"); shift
cd /repo && git apply "$d/patch.diff" || exit 2
cd /verif && ./check "$@" 2>&1 | grep -E "passed |failed |VIOLATION|INCONCL|^OK|violation in" | cut -c1-260
rc=${PIPESTATUS[0]}
git -C /repo checkout -- . ; git -C /repo status --short | head -2
echo "exit=$rc"
