#!/bin/bash
# kill running check drivers and their solver processes (by exact process name, never by pattern
# on the command line, which would also match the calling shell)
pkill -x -f "python3 ./check.*" 2>/dev/null
for n in cbmc kani-driver cargo-kani goto-instrument goto-cc; do pkill -9 -x $n 2>/dev/null; done
pgrep -f "^/root/.pyenv.*/check " | xargs -r kill 2>/dev/null
true
