#!/bin/bash
cd "$(dirname "$0")/.."
for id in "$@"; do s=$(date +%s); ./check $id --tier quick --jobs ${VERIF_JOBS:-12} > /tmp/pv/q_$id.log 2>&1; rc=$?; echo "$id exit=$rc wall=$(( $(date +%s)-s ))s"; done
