#!/bin/bash
# runs every claimed quick check in sequence (as `vp check` does); summary at the end
cd "$(dirname "$0")/.."
for id in $(python3 -c "import json;print(' '.join(c['property_id'] for c in json.load(open('MANIFEST.json'))['checks']))"); do
  s=$(date +%s); ./check $id --tier quick --jobs ${VERIF_JOBS:-12} > /tmp/pv/q_$id.log 2>&1; rc=$?
  echo "$id exit=$rc wall=$(( $(date +%s)-s ))s $(grep -c 'passed ' /tmp/pv/q_$id.log) passed"
done
