#!/usr/bin/env python3
"""Writes /verif/MANIFEST.json from the table below (kept next to the code so that claims and
checks stay in sync)."""
import json, os
ROOT = os.path.dirname(os.path.dirname(os.path.abspath(__file__)))
TECH = "bounded model checking of the real Rust code (Kani 0.68 -> CBMC 6.11 -> CaDiCaL), counterexamples replayed natively"
NOTE = ("Trusted base: rustc/Kani/CBMC/CaDiCaL; dependency models /verif/models/{bytes,futures-channel} (validated by the "
        "repo's own tests, every counterexample replayed against the real crates); stubs and assume-guarantee steps listed "
        "per harness in the evidence file; CBMC pointer checks off (poster is forbid(unsafe_code), re-checked per run); "
        "debug-profile arithmetic. Nothing is claimed outside the per-harness bounds.")
CLAIMS = {
 "C01": "Codec part: for every client packet kind, built through the public option builders with symbolic values and symbolic presence of groups of optional fields, packet_len() equals the bytes written and an independent strict reference decoder finds exactly one well-formed packet carrying exactly the supplied values; refusals happen in build(). Write fragmentation / ordering through the actor are not covered (DESIGN §3).",
 "C02": "Well-formed server packets produced by an independent reference encoder (concrete structure, symbolic values) are accepted and every public accessor returns the encoded value / the standard's default; reason-code tables, booleans, QoS, non-zero integers, u16/u32 and variable byte integers are decided exactly over their full ranges. Properties of inbound PUBLISH and packets with several length-carrying properties are outside the bounds (DESIGN §2.3, §3).",
 "C03": "Narrow: the framing state machine on a two-byte packet delivered one byte per read returns Pending only after the reader registered the waker, never panics, never reports end-of-stream early and emits the packet; broader chunking harnesses exist in the thorough tier but exceed the memory cap on this machine (DESIGN §9).",
 "C04": "No panic for arbitrary bytes in every primitive decoder (<= 8 bytes), Property::try_decode (<= 7 bytes), every *Rx::try_decode (<= 12 bytes, assume-guarantee on the property contract) and the packet-type dispatch; framing on one-byte reads. Actor-level robustness, transport faults and release arithmetic are not covered.",
 "C05": "Kernel only: tx_action_id of a request equals rx_action_id of an inbound packet exactly when the packet is that request's acknowledgement kind with the same identifier (all kinds x all identifiers). Waiter-queue steps and interleavings are not covered.",
 "C10": "Kernel only: handle_connack sets Receive Maximum and the send quota from the CONNACK (65535 when absent) for every prior state. Quota steps on publish/acknowledgement are not covered.",
 "C11": "The identifier allocator used by publish/subscribe/unsubscribe never panics, never yields 0, consecutive identifiers differ and an identifier recurs only after 65535 allocations, for every counter state. Multi-thread clause and subscription identifiers are not covered.",
 "C12": "Kernel only: validate_packet_size is Ok iff no maximum is recorded or L <= M, for every M and every L in 0..=70000; M is taken from the CONNACK. Absence of side effects on rejection is not covered.",
 "C13": "Mapping only: CONNACK reason < 0x80 -> ConnectRsp, >= 0x80 -> ConnectError with that reason; AUTH -> AuthRsp; server DISCONNECT (every form) -> Disconnected carrying reason and properties. run()'s exits are not covered.",
 "C16": "Narrow: RxPacketStream::poll_next returns Pending only after its reader returned Pending in the same poll (scenario of C03).",
 "C17": "Kernel only: session_expired with the clock as an arbitrary input: interval 0 expired, 0xFFFFFFFF never, otherwise expired iff more than interval seconds elapsed (equality unconstrained). Retransmit-queue maintenance and replay are not covered.",
}
NA = {
 "C06": "handshake logic lives in the async ContextHandle::publish / Context::handle_message; a minimal publish() polled once is 2M symex steps and exhausts memory (DESIGN §6, §9). The PUBLISH/PUBREL byte layout itself is covered under C01.",
 "C07": "dispatch to subscription streams is in the async Context::handle_packet step, out of reach for Kani/CBMC here (DESIGN §6, §9)",
 "C08": "acknowledgement generation is in the async Context::handle_packet step, out of reach (DESIGN §6, §9); only the acknowledgement encoder's output shape is checked (C01 harness enc_pingreq_acks)",
 "C09": "needs two consecutive async handle_packet steps, out of reach (DESIGN §6, §9)",
 "C14": "liveness after teardown needs the async user operations polled against the channel model: harness op_ctx_gone exists but does not fit time/memory caps (DESIGN §6, §9)",
 "C15": "cancellation behaviour is in the async handle_packet/handle_message steps, out of reach (DESIGN §6, §9)",
}
props = [json.loads(l)["id"] for l in open(os.path.join(ROOT, "properties.jsonl"))]
m = {
 "version": 1,
 "setup_cmd": "./check selftest",
 "hooks": {"guard": "cfg(kani)", "enable": "none needed: harnesses are mounted into a scratch copy of /repo's working tree (cfg(kani) is set by cargo-kani only); /repo contains no hook commits", "baseline_off_cmd": "cd /repo && cargo test --workspace --no-fail-fast --offline", "source_commits": [], "add_only": True},
 "engines": [{"name": "kani-cbmc", "path": "/verif/check", "serves_properties": sorted(CLAIMS), "kind_free_text": "Kani 0.68 (rustc MIR -> goto) + CBMC 6.11 bounded model checking + CaDiCaL over a scratch copy of /repo's working tree with dependency models; counterexamples replayed natively against the real crates"}],
 "checks": [], "not_applicable": [],
 "notes": "See DESIGN.md. Exit 0 = held within bounds; 1 = violation reproduced natively (VIOLATION line); 2 = inconclusive (never a pass).",
}
for p in props:
    if p in CLAIMS:
        m["checks"].append({"property_id": p, "quick_cmd": "./check %s --tier quick" % p, "thorough_cmd": "./check %s --tier thorough" % p,
                            "evidence_file": "evidence/%s.json" % p, "replay_cmd_template": "./check replay {path}", "engine": "kani-cbmc",
                            "level_claimed": {"category": "model_checking", "text": CLAIMS[p], "design_ref": "DESIGN.md §3"},
                            "level_note": NOTE, "technique": TECH})
    else:
        m["not_applicable"].append({"property_id": p, "reason": NA[p]})
json.dump(m, open(os.path.join(ROOT, "MANIFEST.json"), "w"), indent=1)
print("claimed", sorted(CLAIMS), "n/a", sorted(NA))
