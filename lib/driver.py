"""Driver for the Kani/CBMC checks of poster-rs.  See /verif/DESIGN.md and ../check."""
import concurrent.futures as cf
import fcntl
import glob
import hashlib
import json
import os
import re
import shutil
import signal
import subprocess
import sys
import tempfile
import time

ROOT = os.path.dirname(os.path.dirname(os.path.abspath(__file__)))
REPO = os.environ.get("VERIF_REPO", "/repo")
BUILD = os.path.join(ROOT, ".build")
HARNESS_DIR = os.path.join(ROOT, "harness")
MODELS = os.path.join(ROOT, "models")
KNOWN = os.path.join(ROOT, "known_findings.json")

KANI_FLAGS = [
    "-Z", "stubbing", "-Z", "unstable-options",
    "--no-memory-safety-checks", "--no-assertion-reach-checks",
]
# Trace generation roughly triples CBMC's memory use, so concrete playback is requested only in a
# second pass: for harnesses with a failed check, and for one cheap harness per run (cover witnesses
# for the evidence file).
PLAYBACK_FLAGS = ["-Z", "concrete-playback", "--concrete-playback=print"]

# file stem -> (file of the scratch copy that mounts it, module path of the harness fns)
MOUNTS = {
    "in_context": ("src/client/context.rs", "client::context::verif_in_context", "super::verif_in_context"),
    "in_ctx_pkt": ("src/client/context.rs", "client::context::verif_in_ctx_pkt", "super::verif_in_ctx_pkt"),
    "in_ack": ("src/codec/ack.rs", "codec::ack::verif_in_ack", "super::verif_in_ack"),
    "in_packet_stream": ("src/io/packet_stream.rs", "io::packet_stream::verif_in_packet_stream", "super::verif_in_packet_stream"),
    "in_handle": ("src/client/handle.rs", "client::handle::verif_in_handle", "super::verif_in_handle"),
    "in_stream": ("src/client/stream.rs", "client::stream::verif_in_stream", "super::verif_in_stream"),
}

ENV = dict(os.environ)
ENV.update({"CARGO_NET_OFFLINE": "true", "CARGO_TERM_COLOR": "never", "RUST_BACKTRACE": "0"})


def log(*a):
    print(*a, flush=True)


# --------------------------------------------------------------------------- registry

def parse_registry():
    """Harness metadata lives next to the harness source in `//@` comment lines."""
    reg = {}
    for path in sorted(glob.glob(os.path.join(HARNESS_DIR, "*.rs"))):
        stem = os.path.splitext(os.path.basename(path))[0]
        block = []
        lines = open(path).read().split("\n")

        def flush(block):
            hs, extra = [], {}
            for ln in block:
                m = re.match(r"\s*//@\s*h\s+(.*)$", ln)
                if m:
                    d = dict(kv.split("=", 1) for kv in m.group(1).split())
                    hs.append(d)
                    continue
                m = re.match(r"\s*//@\s*(\w+):\s*(.*)$", ln)
                if m:
                    extra[m.group(1)] = (extra.get(m.group(1), "") + " " + m.group(2)).strip()
            for d in hs:
                name = d["name"]
                if stem in MOUNTS:
                    mfile, modpath, usepath = MOUNTS[stem]
                else:
                    mfile, modpath, usepath = "src/lib.rs", "verif_h::" + stem, "crate::verif_h::" + stem
                if name in reg:
                    raise SystemExit("duplicate harness name " + name)
                reg[name] = {
                    "name": name,
                    "file": path,
                    "stem": stem,
                    "mount_file": mfile,
                    "full": modpath + "::" + name,
                    "use": usepath,
                    "props": d.get("props", "").split(","),
                    "tier": d.get("tier", "quick"),
                    "cap": d.get("cap", "small"),
                    "timeout": int(d.get("to", "600")),
                    "mem_gb": int(d.get("mem", "12")),
                    "args": [a for a in d.get("args", "").split(",") if a],
                    "expect": d.get("expect", "pass"),  # "fail" for vacuity twins
                    "pb": d.get("pb"),  # smaller sibling harness used to extract the solver's assignment
                    "claim": extra.get("claim", ""),
                    "bounds": extra.get("bounds", ""),
                    "funcs": [f.strip() for f in extra.get("funcs", "").split(",") if f.strip()],
                    "assume": extra.get("assume", ""),
                }

        for ln in lines:
            if re.match(r"\s*//@", ln):
                block.append(ln)
            else:
                if block:
                    flush(block)
                block = []
        if block:
            flush(block)
    return reg


# --------------------------------------------------------------------------- scratch copies

def repo_fingerprint():
    h = hashlib.sha256()
    for base, _dirs, files in sorted(os.walk(os.path.join(REPO, "src"))):
        for f in sorted(files):
            p = os.path.join(base, f)
            h.update(p.encode())
            h.update(open(p, "rb").read())
    h.update(open(os.path.join(REPO, "Cargo.toml"), "rb").read())
    return h.hexdigest()[:16]


def gen_manifest(kind, cap):
    """Scratch manifest derived from /repo/Cargo.toml: dev-dependencies dropped, vsupport added,
    and (solver build only) the dependency models patched in."""
    src = open(os.path.join(REPO, "Cargo.toml")).read()
    out, skip = [], False
    for ln in src.split("\n"):
        if re.match(r"\s*\[", ln):
            skip = bool(re.match(r"\s*\[(dev-dependencies|\[example\]|\[bench\]|\[test\]|workspace|patch)", ln))
        if skip:
            continue
        if kind == "kani" and re.match(r"\s*bytes\s*=", ln) and cap != "small":
            ln = re.sub(r"\}\s*$", ', features = ["cap_%s"] }' % cap, ln)
        out.append(ln)
        if re.match(r"\s*\[dependencies\]", ln):
            out.append('vsupport = { path = "%s/vsupport" }' % MODELS)
    out.append("")
    if kind == "kani":
        out.append("[patch.crates-io]")
        out.append('bytes = { path = "%s/bytes" }' % MODELS)
        out.append('futures-channel = { path = "%s/futures-channel" }' % MODELS)
        out.append("")
    out.append("[workspace]")
    out.append("")
    return "\n".join(out)


class Scratch:
    """Fresh copies of /repo's working tree (src/, Cargo.toml, Cargo.lock) outside /repo and /verif,
    extended (never edited) by the harness mounts."""

    def __init__(self, keep=False):
        self.base = tempfile.mkdtemp(prefix="poster-verif.")
        self.keep = keep
        self.copies = {}

    def get(self, kind, cap="small", replay=None):
        key = (kind, cap, replay["id"] if replay else None)
        if key in self.copies:
            return self.copies[key]
        d = os.path.join(self.base, "%s-%s-%d" % (kind, cap, len(self.copies)))
        os.makedirs(d)
        shutil.copytree(os.path.join(REPO, "src"), os.path.join(d, "src"))
        shutil.copy(os.path.join(REPO, "Cargo.lock"), os.path.join(d, "Cargo.lock"))
        open(os.path.join(d, "Cargo.toml"), "w").write(gen_manifest(kind, cap))
        with open(os.path.join(d, "src/lib.rs"), "a") as f:
            f.write('\n#[cfg(kani)]\n#[path = "%s/mod.rs"]\nmod verif_h;\n' % HARNESS_DIR)
        for stem, (mfile, _m, _u) in MOUNTS.items():
            hp = os.path.join(HARNESS_DIR, stem + ".rs")
            if os.path.exists(hp):
                with open(os.path.join(d, mfile), "a") as f:
                    f.write('\n#[cfg(kani)]\ninclude!("%s");\n' % hp)
        if replay:
            with open(os.path.join(d, replay["mount_file"]), "a") as f:
                f.write("\n#[cfg(kani)]\nmod verif_replay {\n    #[allow(unused_imports)]\n    use %s::*;\n%s\n}\n"
                        % (replay["use"], replay["test_code"]))
        self.copies[key] = d
        return d

    def cleanup(self):
        if not self.keep:
            shutil.rmtree(self.base, ignore_errors=True)


def unsafe_free(repo=REPO):
    """poster is #![forbid(unsafe_code)]; re-verified textually so that switching off CBMC's
    pointer checks stays justified."""
    n = 0
    for base, _d, files in os.walk(os.path.join(repo, "src")):
        for f in files:
            if f.endswith(".rs"):
                txt = open(os.path.join(base, f)).read()
                n += len(re.findall(r"\bunsafe\b\s*(\{|fn|impl|trait)", txt))
    forbid = "forbid(unsafe_code" in open(os.path.join(repo, "src/lib.rs")).read()
    return n == 0 and forbid


# --------------------------------------------------------------------------- slots (target dirs)

class Slot:
    def __init__(self, prefix="slot"):
        os.makedirs(BUILD, exist_ok=True)
        self.fd = None
        for k in range(64):
            p = os.path.join(BUILD, "%s%02d" % (prefix, k))
            os.makedirs(p, exist_ok=True)
            fd = os.open(os.path.join(p, ".lock"), os.O_CREAT | os.O_RDWR)
            try:
                fcntl.flock(fd, fcntl.LOCK_EX | fcntl.LOCK_NB)
                self.fd, self.dir = fd, p
                return
            except OSError:
                os.close(fd)
        raise SystemExit("no free build slot")

    def purge_poster(self):
        """Remove everything derived from the scratch copy of poster; dependency artefacts stay."""
        for pat in ("**/build/poster*", "**/deps/*poster*", "**/libposter*", "**/incremental/poster*",
                    "**/.fingerprint/poster*", "**/poster-*"):
            for p in glob.glob(os.path.join(self.dir, pat), recursive=True):
                if os.path.isdir(p):
                    shutil.rmtree(p, ignore_errors=True)
                else:
                    try:
                        os.remove(p)
                    except OSError:
                        pass

    def release(self):
        if self.fd is not None:
            self.purge_poster()
            fcntl.flock(self.fd, fcntl.LOCK_UN)
            os.close(self.fd)
            self.fd = None


def group_rss_kb(pgid):
    total = 0
    for d in os.listdir("/proc"):
        if not d.isdigit():
            continue
        try:
            with open("/proc/%s/stat" % d) as f:
                parts = f.read().rsplit(")", 1)[1].split()
            if int(parts[2]) != pgid:
                continue
            with open("/proc/%s/statm" % d) as f:
                total += int(f.read().split()[1]) * 4
        except (OSError, IndexError, ValueError):
            continue
    return total


def run_cmd(cmd, cwd, timeout, mem_gb=None, env=None):
    """Run in its own process group under a wall-clock limit and a resident-memory limit (polled)."""
    t0 = time.time()
    p = subprocess.Popen(cmd, cwd=cwd, stdout=subprocess.PIPE, stderr=subprocess.STDOUT,
                         preexec_fn=os.setsid, env=env or ENV, text=True, errors="replace")
    state = {"killed": None, "peak": 0}

    def watch():
        while p.poll() is None:
            if time.time() - t0 > timeout:
                state["killed"] = "timeout"
            elif mem_gb:
                rss = group_rss_kb(p.pid)
                state["peak"] = max(state["peak"], rss)
                if rss > mem_gb * (1 << 20):
                    state["killed"] = "memory"
            if state["killed"]:
                try:
                    os.killpg(p.pid, signal.SIGKILL)
                except OSError:
                    pass
                return
            time.sleep(1.0)

    import threading
    th = threading.Thread(target=watch, daemon=True)
    th.start()
    out, _ = p.communicate()
    th.join(timeout=5)
    status = p.returncode
    if state["killed"] == "memory":
        out += "\n[driver] killed: resident memory above %d GB (peak %d MB)\n" % (mem_gb, state["peak"] // 1024)
    return status, out, state["killed"], time.time() - t0


# --------------------------------------------------------------------------- Kani output

CHECK_RE = re.compile(
    r"Check (\d+): ([^\n]+)\n\s+- Status: (\w+)\n\s+- Description: (.*?)\n\s+- Location: (.*?)\n", re.S)
PLAYBACK_RE = re.compile(r"Concrete playback unit test for `([^`]+)`:\n```\n(.*?)\n```", re.S)


def parse_kani(out):
    r = {"checks": [], "verdict": None}
    for m in CHECK_RE.finditer(out):
        r["checks"].append({"n": int(m.group(1)), "id": m.group(2), "status": m.group(3),
                            "desc": m.group(4).strip().strip('"'), "loc": m.group(5).strip()})
    m = re.search(r"VERIFICATION:- (\w+)", out)
    if m:
        r["verdict"] = m.group(1)
    r["symex_s"] = sum(float(x) for x in re.findall(r"Runtime Symex: ([\d.]+)s", out))
    r["solver_s"] = sum(float(x) for x in re.findall(r"Runtime Solver: ([\d.]+)s", out))
    r["decision_s"] = sum(float(x) for x in re.findall(r"Runtime decision procedure: ([\d.]+)s", out))
    m = re.search(r"Verification Time: ([\d.]+)s", out)
    r["verification_s"] = float(m.group(1)) if m else None
    m = re.search(r"Generated (\d+) VCC\(s\), (\d+) remaining", out)
    r["vccs"] = int(m.group(1)) if m else 0
    r["vccs_remaining"] = int(m.group(2)) if m else 0
    m = re.search(r"size of program expression: (\d+) steps", out)
    r["steps"] = int(m.group(1)) if m else 0
    m = re.search(r"(\d+) variables, (\d+) clauses", out)
    r["sat_vars"], r["sat_clauses"] = (int(m.group(1)), int(m.group(2))) if m else (0, 0)
    r["stubs"] = re.findall(r"- Stub: (.*)", out)
    r["playback"] = []
    for m in PLAYBACK_RE.finditer(out):
        code = m.group(2)
        km = re.search(r"Check for `(\w+)`: \"(.*?)\"\n", code, re.S)
        fm = re.search(r"fn (kani_concrete_playback_\w+)\(\)", code)
        vals = [[int(x) for x in v.split(",") if x.strip()] for v in re.findall(r"vec!\[([\d, ]*)\],", code)]
        test = code[code.index("#[test]"):] if "#[test]" in code else code
        r["playback"].append({"harness": m.group(1), "kind": km.group(1) if km else "?",
                              "desc": (km.group(2) if km else "").strip().strip('"'),
                              "test_name": fm.group(1) if fm else None, "vals": vals, "test_code": test})
    return r


def classify_failure(chk):
    """-> 'bound' (unwinding / model capacity / unsupported: inconclusive) or 'candidate'."""
    cid, desc = chk["id"], chk["desc"]
    if ".unwind." in cid or "unwinding assertion" in desc:
        return "bound"
    if desc.startswith("bytes model:") or desc.startswith("verif model:") or "verif bound:" in desc:
        return "bound"
    if "is not currently supported by Kani" in desc or "unsupported" in cid:
        return "bound"
    return "candidate"


# --------------------------------------------------------------------------- running harnesses

def run_harness(h, scratch, tier, playback=False, only_props=None, sliced=True):
    slot = Slot()
    try:
        d = scratch.get("kani", h["cap"])
        cmd = ["cargo", "kani", "--target-dir", slot.dir, "--harness", h["full"], "--exact"] + KANI_FLAGS + h["args"]
        if playback:
            cmd += PLAYBACK_FLAGS
        if only_props:
            # restrict CBMC to the failed properties: a trace for one property is cheap, traces for
            # all checks and covers are what makes the playback pass explode
            if "--cbmc-args" not in cmd:
                cmd.append("--cbmc-args")
            for pid in only_props:
                cmd += ["--property", pid]
            if sliced:
                cmd += ["--slice-formula"]
        to = h["timeout"]
        mem = h["mem_gb"]
        if playback:
            # trace generation needs about three times the memory; this pass runs alone
            mem, to = min(50, max(36, 4 * mem)), 2 * to
        status, out, timed_out, wall = run_cmd(cmd, d, to, mem)
        res = parse_kani(out)
        res.update({"name": h["name"], "wall_s": round(wall, 2), "exit": status, "timed_out": timed_out,
                    "cmd": " ".join(cmd)})
        res["raw_tail"] = out[-6000:]
        os.makedirs(os.path.join(BUILD, "logs"), exist_ok=True)
        with open(os.path.join(BUILD, "logs", h["name"] + ".log"), "w") as lf:
            lf.write(out)
        if timed_out:
            res["outcome"], res["why"] = "inconclusive", ("timeout after %ds" % to if timed_out == "timeout" else "memory limit %d GB exceeded: %s" % (h["mem_gb"], out[-60:].strip()))
        elif re.search(r"error(\[E\d+\])?:|could not compile", out) and res["verdict"] is None:
            res["outcome"], res["why"] = "inconclusive", "compile error (harness no longer fits /repo's source?)"
            errs = re.findall(r"(error(?:\[E\d+\])?:.*?)(?=\n(?:error|warning)|\Z)", out, re.S)
            res["compile_errors"] = "\n".join(e[:700] for e in errs[:4])
        elif res["verdict"] is None:
            res["outcome"], res["why"] = "inconclusive", "no verdict (out of memory / CBMC error), exit %s" % status
        else:
            failed = [c for c in res["checks"] if c["status"] == "FAILURE"]
            undetermined = [c for c in res["checks"] if c["status"] in ("UNDETERMINED", "ERROR")]
            covers = [c for c in res["checks"] if ".cover." in c["id"]]
            # covers whose description starts with "opt:" depend on the harness variant (e.g. the
            # refusal branch of a body shared by several instantiations); at least one cover per
            # harness and every non-optional cover must be satisfied
            mandatory = [c for c in covers if not c["desc"].strip('"').startswith("opt:")]
            sat = [c for c in covers if c["status"] == "SATISFIED"]
            res["covers_total"] = len(mandatory) + (1 if len(mandatory) == 0 and covers else 0)
            res["covers_sat"] = len([c for c in mandatory if c["status"] == "SATISFIED"]) + (1 if len(mandatory) == 0 and sat else 0)
            res["covers_sat_all"] = len(sat)
            res["decided"] = len([c for c in res["checks"] if c["status"] in ("SUCCESS", "FAILURE")])
            bound = [c for c in failed if classify_failure(c) == "bound"]
            cand = [c for c in failed if classify_failure(c) == "candidate"]
            res["failed"], res["bound_failed"], res["candidates"] = failed, bound, cand
            if bound or undetermined:
                res["outcome"] = "inconclusive"
                res["why"] = "bound exceeded / undetermined: " + "; ".join(
                    "%s (%s)" % (c["desc"][:80], c["loc"][-70:]) for c in (bound + undetermined)[:3])
                if undetermined and not bound:
                    res["why"] = "checks UNDETERMINED (solver did not finish / CBMC died): " + res["why"][:200]
            elif cand:
                res["outcome"] = "failed"
            elif res["verdict"] != "SUCCESSFUL":
                res["outcome"], res["why"] = "inconclusive", "verdict %s without failed checks" % res["verdict"]
            elif res["covers_sat"] != res["covers_total"] or (res["covers_total"] == 0 and h["expect"] != "fail"):
                res["outcome"] = "inconclusive"
                res["why"] = "vacuity: %d of %d cover properties satisfied" % (res["covers_sat"], res["covers_total"])
            else:
                res["outcome"] = "passed"
        return res
    finally:
        slot.release()


def poster_functions(res):
    fs = set()
    for c in res.get("checks", []):
        fn = c["id"].rsplit(".", 2)[0]
        loc = c["loc"]
        if " in function " in loc:
            fn = loc.split(" in function ")[1]
        if re.match(r"(verif_h|.*verif_in_|core::(?!base_types|utils|properties|error|collections)|alloc::|std::|bytes::|futures|kani|either|vsupport)", fn):
            continue
        if "src/" in loc and "/verif/" not in loc and ".cargo" not in loc and "rustlib" not in loc:
            fs.add(fn)
    return sorted(fs)


# --------------------------------------------------------------------------- replay

def native_replay(replay, scratch, release=False):
    """Build the harness body natively against the REAL bytes/futures crates (no model patches) and
    run it on the solver's assignment.  Reproduces <=> the playback test fails (panic/assert)."""
    slot = Slot("native")
    try:
        d = scratch.get("native", "small", replay)
        env = dict(ENV)
        env["CARGO_TARGET_DIR"] = slot.dir
        cmd = ["cargo", "kani", "playback", "-Z", "concrete-playback"]
        if release:
            cmd.append("--release")
        cmd += ["--", replay["test_name"], "--exact"] if False else ["--", replay["test_name"]]
        status, out, timed_out, wall = run_cmd(cmd, d, 900, None, env)
        m = re.search(r"test result: (\w+)\. (\d+) passed; (\d+) failed", out)
        if timed_out or not m:
            return {"ran": False, "reproduced": False, "why": "replay build/run error", "tail": out[-3000:]}
        ran = int(m.group(2)) + int(m.group(3))
        pm = re.search(r"panicked at (.*?):\n(.*?)\n", out, re.S)
        if pm and re.search(r"det vals|concrete_vals|Expected \d+ bytes", pm.group(2)):
            # Kani's playback library ran out of / mis-sized values: the assignment does not fit the
            # native harness (stub-generated or sliced-away values) - not a reproduction
            return {"ran": True, "reproduced": False, "why": "assignment misaligned in native playback: " + pm.group(2)[:120], "tail": out[-1500:]}
        return {"ran": ran > 0, "reproduced": int(m.group(3)) > 0, "passed": int(m.group(2)),
                "panic": (pm.group(2).strip() if pm else None), "panic_at": (pm.group(1).strip() if pm else None),
                "wall_s": round(wall, 1), "tail": out[-2500:]}
    finally:
        slot.release()


def load_known():
    if os.path.exists(KNOWN):
        return json.load(open(KNOWN))
    return {"findings": []}


def match_known(known, prop, harness, desc):
    for f in known.get("findings", []):
        if f.get("status") != "open":
            continue
        if f.get("harness") == harness and prop in f.get("properties", [prop]) and re.search(f["check_regex"], desc):
            return f
    return None


def save_replay(prop, h, pb, chk):
    d = os.path.join(ROOT, "replays", prop)
    os.makedirs(d, exist_ok=True)
    key = hashlib.sha256((h["name"] + pb["desc"] + json.dumps(pb["vals"])).encode()).hexdigest()[:10]
    path = os.path.join(d, "%s-%s.replay.json" % (h["name"], key))
    rep = {"id": key, "property": prop, "harness": h["name"], "harness_full": h["full"], "stem": h["stem"],
           "mount_file": h["mount_file"], "use": h["use"], "check": pb["desc"], "check_id": chk["id"] if chk else None,
           "location": chk["loc"] if chk else None, "test_name": pb["test_name"], "vals": pb["vals"],
           "test_code": pb["test_code"], "repo_fingerprint": repo_fingerprint()}
    json.dump(rep, open(path, "w"), indent=1)
    return path, rep


def cmd_replay(path):
    rep = json.load(open(path))
    scratch = Scratch()
    try:
        r = native_replay(rep, scratch)
        log("replay of %s on harness %s: %s" % (path, rep["harness"],
            "REPRODUCED: " + str(r.get("panic")) if r["reproduced"] else "did not reproduce"))
        if not r.get("ran"):
            log(r.get("tail", ""))
            return 2
        if r["reproduced"]:
            log("VIOLATION property=%s replay=%s" % (rep["property"], path))
            return 1
        return 0
    finally:
        scratch.cleanup()


# --------------------------------------------------------------------------- a property check

def select(reg, prop, tier, only):
    # tier=off: harnesses kept in the source for the record (measured out of reach, see DESIGN.md)
    hs = [h for h in reg.values() if prop in h["props"] and (h["tier"] != "off" or (only and h["name"] in only))]
    if tier == "quick" and not only:
        hs = [h for h in hs if h["tier"] == "quick"]
    if only:
        hs = [h for h in hs if h["name"] in only]
    return sorted(hs, key=lambda h: -h["timeout"])


class MemBudget:
    """Harnesses run in parallel; their resident sets add up on a 62 GB box without swap (an
    out-of-memory kill shows up as `verdict FAILED without failed checks`, i.e. a spurious exit 2).
    Each harness reserves a share of a 44 GB budget before it starts: 20 GB when its cap (`mem=`) is
    20 GB or more (measured peaks of those: 12-17 GB), 5 GB otherwise (measured: 1-6 GB)."""

    def __init__(self, total=int(os.environ.get("VERIF_MEM_BUDGET_GB", "44"))):
        import threading
        self.total, self.used, self.cv = total, 0, threading.Condition()

    @staticmethod
    def weight(h):
        return 20 if h["mem_gb"] >= 20 else 5

    def run(self, h, fn):
        w = min(self.weight(h), self.total)
        with self.cv:
            while self.used + w > self.total:
                self.cv.wait()
            self.used += w
        try:
            return fn()
        finally:
            with self.cv:
                self.used -= w
                self.cv.notify_all()


def cmd_check(prop, tier, only, jobs, keep):
    t0 = time.time()
    seed = int(os.environ.get("VERIF_SEED", "0") or 0)
    reg = parse_registry()
    hs = select(reg, prop, tier, only)
    if not hs:
        log("no harness registered for %s" % prop)
        return 2
    known = load_known()
    scratch = Scratch(keep)
    results, violations, known_hits, inconclusive = [], [], [], []
    try:
        if not unsafe_free():
            log("INCONCLUSIVE: /repo contains `unsafe` (or dropped forbid(unsafe_code)); pointer checks were "
                "switched off on the premise that it does not")
            inconclusive.append("unsafe code present")
        log("== %s tier=%s: %d harnesses, %d jobs, repo fingerprint %s" % (prop, tier, len(hs), jobs, repo_fingerprint()))
        for cap in sorted(set(h["cap"] for h in hs)):
            scratch.get("kani", cap)
        budget = MemBudget()
        with cf.ThreadPoolExecutor(max_workers=jobs) as ex:
            futs = {ex.submit(budget.run, h, (lambda h=h: run_harness(h, scratch, tier))): h for h in hs}
            for fut in cf.as_completed(futs):
                h = futs[fut]
                res = fut.result()
                results.append((h, res))
                log("  %-34s %-12s wall=%6.1fs symex=%5.1fs solver=%5.1fs checks=%d covers=%s/%s %s" % (
                    h["name"], res["outcome"], res["wall_s"], res.get("symex_s", 0), res.get("solver_s", 0),
                    res.get("decided", 0), res.get("covers_sat", "-"), res.get("covers_total", "-"),
                    res.get("why", "")))
                if res.get("compile_errors") and not getattr(cmd_check, "_shown", False):
                    cmd_check._shown = True
                    log(res["compile_errors"])
        # twins (expect=fail) must fail; everything else is judged
        for h, res in results:
            if h["expect"] == "fail":
                if res["outcome"] != "failed":
                    inconclusive.append("vacuity twin %s did not fail (%s)" % (h["name"], res["outcome"]))
                continue
            if res["outcome"] == "inconclusive":
                inconclusive.append("%s: %s" % (h["name"], res.get("why")))
                continue
            if res["outcome"] != "failed":
                continue
            # second pass with trace generation to obtain the solver's assignment
            log("  %s: failed check(s); re-running with concrete playback" % h["name"])
            hp = h
            if h.get("pb") and h["pb"] in reg:
                # trace generation on the full-size harness would exceed memory: use its smaller
                # sibling (same body, smaller input bound); the native replay decides either way
                hp = reg[h["pb"]]
                log("  %s: extracting the assignment from the smaller sibling %s" % (h["name"], hp["name"]))
            want = None if hp is not h else [c["id"] for c in res["candidates"]][:4]
            # cheap harnesses: full trace (every non-deterministic value listed, playback aligned);
            # expensive ones: sliced formula (memory), which needs packed inputs to stay aligned
            res2 = run_harness(hp, scratch, tier, playback=True, only_props=want, sliced=(res["wall_s"] > 150 and h["stem"] != "l1_enc"))
            res["playback"] = res2.get("playback", [])
            if hp is not h:
                res["candidates"] = [c for c in res2.get("candidates", [])] or res["candidates"]
                replay_h = hp
            else:
                replay_h = h
            # candidate violations: replay each failed check natively against the real crates
            for chk in res["candidates"]:
                pbs = [p for p in res["playback"] if p["kind"] != "cover" and p["desc"] == chk["desc"]]
                if not pbs:
                    pbs = [p for p in res["playback"] if p["kind"] != "cover" and (p["desc"] in chk["desc"] or chk["desc"] in p["desc"])]
                if not pbs:
                    inconclusive.append("%s: failed check without a concrete assignment: %s" % (h["name"], chk["desc"][:100]))
                    continue
                pb = pbs[0]
                path, rep = save_replay(prop, replay_h, pb, chk)
                rr = native_replay(rep, scratch)
                chk["replay"] = {k: rr.get(k) for k in ("reproduced", "panic", "panic_at", "wall_s")}
                chk["replay_path"] = path
                if not rr.get("ran") or not rr["reproduced"]:
                    inconclusive.append("%s: counterexample for `%s` did not reproduce against the real crates "
                                        "(model/stub artefact?) %s" % (h["name"], chk["desc"][:80], rr.get("why", "")))
                    log(rr.get("tail", "")[-1500:])
                    continue
                kf = match_known(known, prop, h["name"], chk["desc"])
                if kf:
                    known_hits.append((kf, h, chk))
                    os.remove(path)
                else:
                    violations.append((h, chk, path, rr))
        # cover witnesses for the evidence file: cheapest passed harness, re-run with playback
        cheap = sorted([(r["wall_s"], h, r) for h, r in results if r["outcome"] == "passed" and r["wall_s"] < 120],
                       key=lambda x: x[0])
        if cheap and not violations:
            _w, h, r = cheap[0]
            r2 = run_harness(h, scratch, tier, playback=True)
            r["playback"] = [p for p in r2.get("playback", []) if p["kind"] == "cover"]
        for kf, h, chk in known_hits:
            log("KNOWN-FINDING: property=%s %s [harness %s, check `%s`]" % (prop, kf["what"], h["name"], chk["desc"][:70]))
        for h, chk, path, rr in violations:
            log("  violation in %s: `%s` at %s; native replay: %s" % (h["name"], chk["desc"][:100], chk["loc"][:90], rr.get("panic")))
            log("VIOLATION property=%s replay=%s" % (prop, os.path.relpath(path, ROOT)))
        for w in inconclusive:
            log("INCONCLUSIVE: " + w)
        write_evidence(prop, tier, seed, results, violations, known_hits, inconclusive, time.time() - t0)
        if violations:
            return 1
        if inconclusive:
            return 2
        log("OK %s: %d harnesses passed (%.0fs)" % (prop, len([1 for h, r in results if r["outcome"] == "passed"]), time.time() - t0))
        return 0
    finally:
        scratch.cleanup()


def write_evidence(prop, tier, seed, results, violations, known_hits, inconclusive, wall):
    hs = []
    samples = []
    queries = 0
    nontrivial = 0
    symex = solver = 0.0
    funcs = set()
    for h, r in sorted(results, key=lambda x: x[0]["name"]):
        queries += r.get("decided", 0)
        symex += r.get("symex_s", 0)
        solver += r.get("solver_s", 0)
        ok_cov = r.get("covers_total", 0) > 0 and r.get("covers_sat") == r.get("covers_total")
        if r["outcome"] in ("passed", "failed") and h["expect"] != "fail":
            nontrivial += r.get("covers_sat_all", 0) or 0
        pf = poster_functions(r)
        funcs.update(pf)
        funcs.update(h["funcs"])
        hs.append({
            "harness": h["full"], "outcome": r["outcome"], "why": r.get("why"), "claim": h["claim"],
            "bounds": h["bounds"], "assumptions": h["assume"], "functions_declared": h["funcs"],
            "functions_with_checks": pf, "cap": h["cap"], "kani_args": h["args"],
            "checks_decided": r.get("decided", 0), "vccs": r.get("vccs"), "program_steps": r.get("steps"),
            "sat_vars": r.get("sat_vars"), "sat_clauses": r.get("sat_clauses"),
            "covers": "%s/%s" % (r.get("covers_sat"), r.get("covers_total")),
            "symex_s": round(r.get("symex_s", 0), 2), "solver_s": round(r.get("solver_s", 0), 2),
            "wall_s": r["wall_s"], "stubs": r.get("stubs", []),
            "failed_checks": [{"desc": c["desc"], "loc": c["loc"], "replay": c.get("replay")} for c in r.get("failed", [])],
            "expected_to_fail": h["expect"] == "fail",
        })
        for pb in r.get("playback", []):
            if pb["kind"] == "cover" and len(samples) < 12:
                samples.append({"harness": h["name"], "cover": pb["desc"], "solver_assignment_bytes": pb["vals"][:24]})
    if not samples:
        samples = [{"harness": h["name"], "claim": h["claim"]} for h, _ in results[:3]]
    ev = {
        "property_id": prop, "tier": tier, "seed": seed, "level": "model_checking",
        "coverage": {
            "evaluations": max(queries, 1) if results else 0,
            "distinct_nontrivial": nontrivial,
            "rule": "evaluations = solver-decided checks (assertions, panics, overflow and bounds checks, unwinding "
                    "assertions, cover properties) summed over the harnesses run; each is decided by CBMC+CaDiCaL for "
                    "ALL values of the harness's symbolic inputs within the stated bounds. distinct_nontrivial = "
                    "number of distinct named cover properties (kani::cover! on the interesting branches: decoder returned "
                    "Ok, boundary value reached, ...) that the solver reported SATISFIED with a concrete witness; a harness "
                    "with an unsatisfied cover makes the whole check exit 2.",
            "samples": samples,
            "states": max(1, sum((r.get("steps") or 0) for _h, r in results)),
            "transitions": max(1, sum((r.get("vccs") or 0) for _h, r in results)),
            "traces_validated_against_impl": len([1 for h, r in results for c in r.get("failed", []) if c.get("replay")]),
            "states_transitions_meaning": "states = steps of the symbolic-execution program (SSA assignments, each standing for "
                                          "all concrete states within the bounds), transitions = verification conditions generated "
                                          "from them, both summed over the harnesses of this run; traces_validated_against_impl = "
                                          "solver counterexamples replayed natively against the real crates in this run (0 on a clean tree)",
            "explanation": "Bounded model checking of the real poster source (Kani 0.68 -> CBMC 6.11 -> CaDiCaL) "
                           "regenerated from /repo's working tree on this run; per-harness bounds, assumptions and "
                           "functions are listed under `harnesses`. Outside the bounds nothing is claimed.",
            "harnesses": hs,
            "functions_encoded": sorted(funcs),
            "solver_time_s": round(solver, 2), "symex_time_s": round(symex, 2),
            "known_findings_hit": [{"what": kf["what"], "harness": h["name"], "check": c["desc"]} for kf, h, c in known_hits],
            "inconclusive": inconclusive,
            "repo_fingerprint": repo_fingerprint(),
            "exhaustive": False,
        },
        "assumptions": [
            "bytes crate replaced by /verif/models/bytes (fixed-array BytesMut, &'static view Bytes) in the solver build; "
            "every counterexample is replayed against the real crate before it is reported",
            "futures-channel replaced by /verif/models/futures-channel (single-threaded, documented contract)",
            "core::str::from_utf8 stubbed to accept exactly ASCII where listed under stubs",
            "CBMC pointer/memory-safety instrumentation off (poster is forbid(unsafe_code), re-checked textually each run)",
            "Rust debug-profile semantics (overflow checks on) unless a harness says otherwise",
        ],
        "wall_s": round(wall, 1),
        "violations": len(violations),
    }
    os.makedirs(os.path.join(ROOT, "evidence"), exist_ok=True)
    json.dump(ev, open(os.path.join(ROOT, "evidence", prop + ".json"), "w"), indent=1)


# --------------------------------------------------------------------------- selftest / setup

def cmd_selftest(jobs):
    """setup_cmd: warm the dependency caches of the build slots, validate the dependency models by
    running the repository's own unit tests against them, run the differential model test."""
    rc = 0
    scratch = Scratch()
    try:
        # 1. repo's own tests against the models (normal toolchain, patched manifest)
        d = scratch.get("kani", "small")
        env = dict(ENV)
        env["CARGO_TARGET_DIR"] = os.path.join(BUILD, "modeltest")
        st, out, to, wall = run_cmd(["cargo", "test", "--offline", "--lib"], d, 1800, None, env)
        m = re.search(r"test result: (\w+)\. (\d+) passed; (\d+) failed", out)
        if not m or m.group(1) != "ok":
            log("selftest: repo tests against the models FAILED\n" + out[-3000:])
            rc = 2
        else:
            log("selftest: repo's unit tests against the dependency models: %s passed, %s failed (%.0fs)" % (m.group(2), m.group(3), wall))
        # 2. differential test model vs real crate
        nd = os.path.join(ROOT, "native", "modeldiff")
        if os.path.exists(nd):
            env["CARGO_TARGET_DIR"] = os.path.join(BUILD, "modeldiff")
            st, out, to, wall = run_cmd(["cargo", "run", "--offline", "--release"], nd, 1800, None, env)
            log("selftest: differential model test exit=%s (%.0fs)\n%s" % (st, wall, out[-600:]))
            if st != 0:
                rc = 2
        # 3. warm build slots + vacuity twins
        reg = parse_registry()
        twins = [h for h in reg.values() if h["expect"] == "fail"]
        warm = [h for h in reg.values() if h["name"] in ("varint_roundtrip",)]
        todo = (twins + warm * jobs)[:max(jobs, len(twins))]
        with cf.ThreadPoolExecutor(max_workers=jobs) as ex:
            for h, res in zip(todo, ex.map(lambda h: run_harness(h, scratch, "quick"), todo)):
                want = "failed" if h["expect"] == "fail" else "passed"
                log("selftest: %-30s %s (want %s) %.0fs" % (h["name"], res["outcome"], want, res["wall_s"]))
                if res["outcome"] != want:
                    log(res.get("raw_tail", "")[-2000:])
                    rc = 2
        # 4. native replay cache
        return rc
    finally:
        scratch.cleanup()


def main(argv):
    if not argv:
        print(__doc__)
        return 2
    if argv[0] == "replay":
        return cmd_replay(argv[1])
    jobs = int(os.environ.get("VERIF_JOBS", "8"))
    if argv[0] == "selftest":
        return cmd_selftest(jobs)
    if argv[0] == "list":
        reg = parse_registry()
        for h in sorted(reg.values(), key=lambda h: h["name"]):
            if len(argv) < 2 or argv[1] in h["props"]:
                print("%-36s %-8s %-6s to=%-5d %s" % (h["name"], h["tier"], h["cap"], h["timeout"], ",".join(h["props"])))
        return 0
    prop = argv[0]
    tier = os.environ.get("VERIF_TIER", "quick")
    only, keep = None, False
    i = 1
    while i < len(argv):
        if argv[i] == "--tier":
            tier = argv[i + 1]; i += 2
        elif argv[i] == "--only":
            only = argv[i + 1].split(","); i += 2
        elif argv[i] == "--jobs":
            jobs = int(argv[i + 1]); i += 2
        elif argv[i] == "--keep":
            keep = True; i += 1
        else:
            raise SystemExit("unknown argument " + argv[i])
    return cmd_check(prop, tier, only, jobs, keep)
